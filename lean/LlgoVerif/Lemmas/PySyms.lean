import LlgoVerif.Model.PySyms
/-!
# Lemmas for C19, symbol loading: `splitLast`, the grouping loop of `pyLoadModSyms`, the compile rounds
-/
namespace LlgoVerif.PyGuard

/-! ## `splitLast` -/

theorem splitLast_spec : ∀ (s m a : Name), splitLast s = some (m, a) → s = m ++ '.' :: a ∧ '.' ∉ a := by
  intro s
  induction s with
  | nil => intro m a h; simp [splitLast] at h
  | cons c r ih =>
    intro m a h
    unfold splitLast at h
    cases hr : splitLast r with
    | some p =>
      obtain ⟨m', a'⟩ := p
      simp only [hr] at h
      injection h with h
      injection h with h1 h2
      subst h1; subst h2
      obtain ⟨e, hn⟩ := ih m' a' hr
      exact ⟨by rw [e]; rfl, hn⟩
    | none =>
      simp only [hr] at h
      by_cases hc : c = '.'
      · simp only [hc, if_true] at h
        injection h with h
        injection h with h1 h2
        subst h1; subst h2; subst hc
        refine ⟨rfl, ?_⟩
        -- no dot in r, otherwise splitLast r would be some
        intro hmem
        clear ih
        induction r with
        | nil => cases hmem
        | cons d t iht =>
          unfold splitLast at hr
          cases ht : splitLast t with
          | some p => simp [ht] at hr
          | none =>
            simp only [ht] at hr
            by_cases hd : d = '.'
            · simp [hd] at hr
            · rcases List.mem_cons.1 hmem with h | h
              · exact hd h.symm
              · exact iht ht h
      · simp [hc] at h

theorem splitLast_none_of_no_dot : ∀ (s : Name), '.' ∉ s → splitLast s = none := by
  intro s
  induction s with
  | nil => intro _; rfl
  | cons c r ih =>
    intro h
    have h1 : c ≠ '.' := fun e => h (by simp [e])
    have h2 : '.' ∉ r := fun e => h (List.mem_cons_of_mem _ e)
    unfold splitLast
    simp [ih h2, h1]

/-- the converse: a name written as `m.a` with a dot-free `a` splits there -/
theorem splitLast_of_eq : ∀ (m a : Name), '.' ∉ a → splitLast (m ++ '.' :: a) = some (m, a) := by
  intro m
  induction m with
  | nil =>
    intro a h
    simp only [List.nil_append]
    unfold splitLast
    simp [splitLast_none_of_no_dot a h]
  | cons c t ih =>
    intro a h
    simp only [List.cons_append]
    unfold splitLast
    simp [ih a h]

theorem modOf_spec {s m : Name} (h : modOf s = some m) :
    m ≠ [] ∧ ∃ a, splitLast s = some (m, a) := by
  unfold modOf at h
  cases hs : splitLast s with
  | none => simp [hs] at h
  | some p =>
    obtain ⟨m', a⟩ := p
    simp only [hs] at h
    by_cases he : m'.isEmpty = true
    · simp [he] at h
    · simp only [he, Bool.false_eq_true, if_false] at h
      injection h with h
      subst h
      exact ⟨by intro e; simp [e] at he, a, rfl⟩

/-- the part before the last dot of `t.r` starts with `t` -/
theorem splitLast_append_dot : ∀ (t r : Name), ∃ m a, splitLast (t ++ '.' :: r) = some (t ++ m, a) := by
  intro t
  induction t with
  | nil =>
    intro r
    simp only [List.nil_append]
    unfold splitLast
    cases splitLast r with
    | some q => exact ⟨_, _, rfl⟩
    | none => exact ⟨[], r, by simp⟩
  | cons c u ih =>
    intro r
    obtain ⟨m, a, h⟩ := ih r
    refine ⟨m, a, ?_⟩
    simp only [List.cons_append]
    unfold splitLast
    simp [h]

/-- every name of the shape `<non-empty>.<rest>` has a module (llgo's names all start with `__llgo_py.`) -/
theorem modOf_isSome_of_dotted (p r : Name) (hp : p ≠ []) : (modOf (p ++ '.' :: r)).isSome = true := by
  obtain ⟨m, a, h⟩ := splitLast_append_dot p r
  unfold modOf
  simp only [h]
  have : (p ++ m).isEmpty = false := by
    cases p with
    | nil => exact absurd rfl hp
    | cons _ _ => rfl
  simp [this]

/-! ## the association list -/

theorem getOf_addTo (mods : List (Name × List Name)) (m x m' : Name) :
    getOf (addTo mods m x) m' = if m' = m then getOf mods m ++ [x] else getOf mods m' := by
  induction mods with
  | nil =>
    by_cases h : m' = m
    · subst h; simp [addTo, getOf]
    · have h' : ¬ m = m' := fun e => h e.symm
      simp [addTo, getOf, h, h']
  | cons kv r ih =>
    obtain ⟨k, v⟩ := kv
    by_cases hk : k = m
    · subst hk
      by_cases h : m' = k
      · subst h; simp [addTo, getOf]
      · have h' : ¬ k = m' := fun e => h e.symm
        simp [addTo, getOf, h, h']
    · by_cases h : m' = m
      · subst h
        simp only [addTo, hk, if_false, getOf, if_true]
        rw [ih]; simp
      · simp only [addTo, hk, if_false, getOf, h]
        by_cases hk' : k = m'
        · simp [hk']
        · simp only [hk', if_false]
          rw [ih]; simp [h]

/-! ## the grouping loop -/

/-- invariant of the loop after the names `seen` have been processed -/
structure GInvS (seen : List Name) (acc : GroupAcc) : Prop where
  sound : ∀ m x, x ∈ getOf acc.mods m → x ∈ seen ∧ ∃ a, splitLast x = some (m, a)
  complete : ∀ x ∈ seen, ∃ m, modOf x = some m ∧ m ∈ acc.modNames ∧ x ∈ getOf acc.mods m
  last : acc.lastMod = [] ∨ acc.lastMod ∈ acc.modNames

theorem groupStep_inv {seen : List Name} {acc acc' : GroupAcc} {name : Name}
    (hi : GInvS seen acc) (h : groupStep acc name = some acc') : GInvS (seen ++ [name]) acc' := by
  unfold groupStep at h
  cases hm : modOf name with
  | none => simp [hm] at h
  | some m =>
    simp only [hm] at h
    obtain ⟨hne, a, hsp⟩ := modOf_spec hm
    have hmods : ∀ m', getOf (addTo acc.mods m name) m' = if m' = m then getOf acc.mods m ++ [name] else getOf acc.mods m' :=
      getOf_addTo acc.mods m name
    by_cases hl : m = acc.lastMod
    · simp only [hl, if_true] at h
      injection h with h
      subst h
      have hmn : m ∈ acc.modNames := by
        rcases hi.last with h0 | h0
        · rw [← hl] at h0; exact absurd h0 hne
        · rw [hl]; exact h0
      refine ⟨?_, ?_, hi.last⟩
      · intro m' x hx
        simp only at hx
        rw [← hl, hmods m'] at hx
        by_cases hmm : m' = m
        · simp only [hmm, if_true, List.mem_append, List.mem_singleton] at hx
          rcases hx with hx | hx
          · obtain ⟨h1, h2⟩ := hi.sound m x hx
            exact ⟨by simp [h1], by rw [hmm]; exact h2⟩
          · subst hx; exact ⟨by simp, by rw [hmm]; exact ⟨a, hsp⟩⟩
        · simp only [hmm, if_false] at hx
          obtain ⟨h1, h2⟩ := hi.sound m' x hx
          exact ⟨by simp [h1], h2⟩
      · intro x hx
        simp only [List.mem_append, List.mem_singleton] at hx
        rcases hx with hx | hx
        · obtain ⟨mx, h1, h2, h3⟩ := hi.complete x hx
          refine ⟨mx, h1, h2, ?_⟩
          simp only
          rw [← hl, hmods mx]
          by_cases hmm : mx = m
          · simp [hmm]; left; rw [← hmm]; exact h3
          · simp [hmm]; exact h3
        · subst hx
          refine ⟨m, hm, hmn, ?_⟩
          simp only
          rw [← hl, hmods m]; simp
    · simp only [hl, if_false] at h
      injection h with h
      subst h
      refine ⟨?_, ?_, .inr (by simp)⟩
      · intro m' x hx
        simp only at hx
        rw [hmods m'] at hx
        by_cases hmm : m' = m
        · simp only [hmm, if_true, List.mem_append, List.mem_singleton] at hx
          rcases hx with hx | hx
          · obtain ⟨h1, h2⟩ := hi.sound m x hx
            exact ⟨by simp [h1], by rw [hmm]; exact h2⟩
          · subst hx; exact ⟨by simp, by rw [hmm]; exact ⟨a, hsp⟩⟩
        · simp only [hmm, if_false] at hx
          obtain ⟨h1, h2⟩ := hi.sound m' x hx
          exact ⟨by simp [h1], h2⟩
      · intro x hx
        simp only [List.mem_append, List.mem_singleton] at hx
        rcases hx with hx | hx
        · obtain ⟨mx, h1, h2, h3⟩ := hi.complete x hx
          refine ⟨mx, h1, by simp [h2], ?_⟩
          simp only
          rw [hmods mx]
          by_cases hmm : mx = m
          · simp [hmm]; left; rw [← hmm]; exact h3
          · simp [hmm]; exact h3
        · subst hx
          refine ⟨m, hm, by simp, ?_⟩
          simp only
          rw [hmods m]; simp

theorem group_fold_inv : ∀ (l seen : List Name) (acc acc' : GroupAcc), GInvS seen acc →
    l.foldlM groupStep acc = some acc' → GInvS (seen ++ l) acc' := by
  intro l
  induction l with
  | nil =>
    intro seen acc acc' hi h
    have h' : some acc = some acc' := h
    injection h' with h'; subst h'; simpa using hi
  | cons x xs ih =>
    intro seen acc acc' hi h
    simp only [List.foldlM_cons, bind, Option.bind] at h
    cases hs : groupStep acc x with
    | none => simp [hs] at h
    | some acc1 =>
      simp only [hs] at h
      have := ih (seen ++ [x]) acc1 acc' (groupStep_inv hi hs) h
      simpa using this

theorem group_fold_total : ∀ (l : List Name) (acc : GroupAcc), (∀ n ∈ l, (modOf n).isSome = true) →
    (l.foldlM groupStep acc).isSome = true := by
  intro l
  induction l with
  | nil => intro acc _; rfl
  | cons x xs ih =>
    intro acc h
    have hx := h x (by simp)
    simp only [List.foldlM_cons, bind, Option.bind]
    cases hm : modOf x with
    | none => simp [hm] at hx
    | some m =>
      have : ∃ a1, groupStep acc x = some a1 := by
        unfold groupStep
        simp only [hm]
        split <;> exact ⟨_, rfl⟩
      obtain ⟨a1, h1⟩ := this
      simp only [h1]
      exact ih a1 (fun n hn => h n (by simp [hn]))

theorem ginvS_init : GInvS [] {} :=
  ⟨(by intro m x h; simp [getOf] at h), (by intro x h; cases h), .inl rfl⟩

theorem mem_insertName {x y : Name} : ∀ {l : List Name}, y ∈ insertName x l ↔ y = x ∨ y ∈ l := by
  intro l
  induction l with
  | nil => simp [insertName]
  | cons z r ih =>
    unfold insertName
    by_cases h : x ≤ z
    · simp [h]
    · simp only [h, if_false, List.mem_cons, ih]
      constructor
      · rintro (h1 | h1 | h1)
        · exact .inr (.inl h1)
        · exact .inl h1
        · exact .inr (.inr h1)
      · rintro (h1 | h1 | h1)
        · exact .inr (.inl h1)
        · exact .inl h1
        · exact .inr (.inr h1)

theorem mem_sortNames {l : List Name} {x : Name} : x ∈ sortNames l ↔ x ∈ l := by
  unfold sortNames
  induction l with
  | nil => simp
  | cons y r ih => simp only [List.foldr_cons, mem_insertName, ih, List.mem_cons]

theorem drop_len_succ (m a : Name) (c : Char) : (m ++ c :: a).drop (m.length + 1) = a := by
  induction m with
  | nil => rfl
  | cons d t ih => simp [ih]

/-! ## the compile rounds -/

theorem mem_addObj {objs : List Name} {n x : Name} : x ∈ addObj objs n ↔ x ∈ objs ∨ x = n := by
  unfold addObj
  by_cases h : n ∈ objs
  · simp only [h, if_true]
    constructor
    · exact .inl
    · rintro (h1 | h1)
      · exact h1
      · subst h1; exact h
  · simp [h]

theorem mem_foldl_addObj {refs : List Name} : ∀ {objs : List Name} {x : Name},
    x ∈ refs.foldl addObj objs ↔ x ∈ objs ∨ x ∈ refs := by
  induction refs with
  | nil => intro objs x; simp
  | cons r rs ih =>
    intro objs x
    simp only [List.foldl_cons, ih, mem_addObj, List.mem_cons]
    constructor
    · rintro ((h | h) | h)
      · exact .inl h
      · exact .inr (.inl h)
      · exact .inr (.inr h)
    · rintro (h | h | h)
      · exact .inl (.inl h)
      · exact .inl (.inr h)
      · exact .inr h

theorem enqueue_pyobjs (st : CompSt) (j : Nat) : (enqueue st j).pyobjs = st.pyobjs := by
  unfold enqueue; split <;> rfl

theorem mem_enqueue_seen {st : CompSt} {j x : Nat} : x ∈ (enqueue st j).seen ↔ x ∈ st.seen ∨ x = j := by
  unfold enqueue
  by_cases h : j ∈ st.seen
  · simp only [h, if_true]
    constructor
    · exact .inl
    · rintro (h1 | h1)
      · exact h1
      · subst h1; exact h
  · simp only [h, if_false, List.mem_cons]
    constructor
    · rintro (h1 | h1)
      · exact .inr h1
      · exact .inl h1
    · rintro (h1 | h1)
      · exact .inr h1
      · exact .inl h1

/-- a queued or seen element stays; a new one lands in the queue -/
theorem enqueue_queue {st : CompSt} {j x : Nat} :
    x ∈ (enqueue st j).queue ↔ x ∈ st.queue ∨ (x = j ∧ j ∉ st.seen) := by
  unfold enqueue
  by_cases h : j ∈ st.seen
  · simp [h]
  · simp [h]

theorem foldl_enqueue_pyobjs : ∀ (l : List Nat) (st : CompSt), (l.foldl enqueue st).pyobjs = st.pyobjs := by
  intro l
  induction l with
  | nil => intro st; rfl
  | cons j js ih => intro st; simp only [List.foldl_cons, ih, enqueue_pyobjs]

theorem mem_foldl_enqueue_seen : ∀ (l : List Nat) (st : CompSt) (x : Nat),
    x ∈ (l.foldl enqueue st).seen ↔ x ∈ st.seen ∨ x ∈ l := by
  intro l
  induction l with
  | nil => intro st x; simp
  | cons j js ih =>
    intro st x
    simp only [List.foldl_cons, ih, mem_enqueue_seen, List.mem_cons]
    constructor
    · rintro ((h | h) | h)
      · exact .inl h
      · exact .inr (.inl h)
      · exact .inr (.inr h)
    · rintro (h | h | h)
      · exact .inl (.inl h)
      · exact .inl (.inr h)
      · exact .inr h

/-- everything seen after enqueuing a list was seen before or sits in the queue -/
theorem foldl_enqueue_queue : ∀ (l : List Nat) (st : CompSt) (x : Nat),
    x ∈ (l.foldl enqueue st).seen → x ∈ st.seen ∨ x ∈ (l.foldl enqueue st).queue := by
  intro l
  induction l with
  | nil => intro st x h; exact .inl h
  | cons j js ih =>
    intro st x h
    simp only [List.foldl_cons] at h ⊢
    rcases ih (enqueue st j) x h with h1 | h1
    · rcases mem_enqueue_seen.1 h1 with h2 | h2
      · exact .inl h2
      · subst h2
        by_cases hs : x ∈ st.seen
        · exact .inl hs
        · right
          have : x ∈ (enqueue st x).queue := enqueue_queue.2 (.inr ⟨rfl, hs⟩)
          -- the queue only grows
          exact queue_mono js (enqueue st x) x this
    · exact .inr h1
where
  queue_mono : ∀ (l : List Nat) (st : CompSt) (x : Nat), x ∈ st.queue → x ∈ (l.foldl enqueue st).queue := by
    intro l
    induction l with
    | nil => intro st x h; exact h
    | cons j js ih =>
      intro st x h
      simp only [List.foldl_cons]
      exact ih (enqueue st j) x (enqueue_queue.2 (.inl h))

theorem foldl_enqueue_queue_mono (l : List Nat) (st : CompSt) (x : Nat) (h : x ∈ st.queue) :
    x ∈ (l.foldl enqueue st).queue := foldl_enqueue_queue.queue_mono l st x h

/-- body `i` has been compiled in state `st` -/
def Built (B : Nat → Body) (st : CompSt) (i : Nat) : Prop :=
  (∀ n ∈ (B i).pyRefs, n ∈ st.pyobjs) ∧ (∀ j ∈ (B i).spawns, j ∈ st.seen)

/-- `st'` knows everything `st` knows -/
structure Grow (st st' : CompSt) : Prop where
  objs : ∀ n ∈ st.pyobjs, n ∈ st'.pyobjs
  seen : ∀ j ∈ st.seen, j ∈ st'.seen
  queue : ∀ j ∈ st.queue, j ∈ st'.queue

theorem Built.grow {B : Nat → Body} {st st' : CompSt} {i : Nat} (h : Built B st i) (g : Grow st st') : Built B st' i :=
  ⟨fun n hn => g.objs n (h.1 n hn), fun j hj => g.seen j (h.2 j hj)⟩

theorem buildBody_spec (B : Nat → Body) (st : CompSt) (i : Nat) :
    Grow st (buildBody B st i) ∧ Built B (buildBody B st i) i ∧
    (∀ j ∈ (buildBody B st i).seen, j ∈ st.seen ∨ j ∈ (buildBody B st i).queue) ∧
    (∀ n ∈ (buildBody B st i).pyobjs, n ∈ st.pyobjs ∨ n ∈ (B i).pyRefs) ∧
    (∀ j ∈ (buildBody B st i).seen, j ∈ st.seen ∨ j ∈ (B i).spawns) := by
  unfold buildBody
  refine ⟨⟨?_, ?_, ?_⟩, ⟨?_, ?_⟩, ?_, ?_, ?_⟩
  · intro n hn
    rw [foldl_enqueue_pyobjs]
    exact mem_foldl_addObj.2 (.inl hn)
  · intro j hj
    exact (mem_foldl_enqueue_seen _ _ _).2 (.inl hj)
  · intro j hj
    exact foldl_enqueue_queue_mono _ _ _ hj
  · intro n hn
    rw [foldl_enqueue_pyobjs]
    exact mem_foldl_addObj.2 (.inr hn)
  · intro j hj
    exact (mem_foldl_enqueue_seen _ _ _).2 (.inr hj)
  · intro j hj
    exact foldl_enqueue_queue _ _ j hj
  · intro n hn
    rw [foldl_enqueue_pyobjs] at hn
    exact mem_foldl_addObj.1 hn
  · intro j hj
    have h1 := (mem_foldl_enqueue_seen (B i).spawns
      { st with pyobjs := (B i).pyRefs.foldl addObj st.pyobjs } j).1 hj
    exact h1

theorem enqueue_queueSeen {st : CompSt} (j : Nat) (h : ∀ x ∈ st.queue, x ∈ st.seen) :
    ∀ x ∈ (enqueue st j).queue, x ∈ (enqueue st j).seen := by
  intro x hx
  rcases enqueue_queue.1 hx with h1 | ⟨h1, _⟩
  · exact mem_enqueue_seen.2 (.inl (h x h1))
  · exact mem_enqueue_seen.2 (.inr h1)

theorem foldl_enqueue_queueSeen : ∀ (l : List Nat) (st : CompSt), (∀ x ∈ st.queue, x ∈ st.seen) →
    ∀ x ∈ (l.foldl enqueue st).queue, x ∈ (l.foldl enqueue st).seen := by
  intro l
  induction l with
  | nil => intro st h; exact h
  | cons j js ih => intro st h; simp only [List.foldl_cons]; exact ih _ (enqueue_queueSeen j h)

theorem buildBody_queueSeen (B : Nat → Body) (st : CompSt) (i : Nat) (h : ∀ x ∈ st.queue, x ∈ st.seen) :
    ∀ x ∈ (buildBody B st i).queue, x ∈ (buildBody B st i).seen := by
  unfold buildBody
  exact foldl_enqueue_queueSeen _ _ h

/-- invariant while the closures `pending` of the current round are still to be run -/
structure CInv (B : Nat → Body) (roots : List Nat) (pending : List Nat) (st : CompSt) : Prop where
  closed : ∀ i ∈ st.seen, i ∈ pending ∨ i ∈ st.queue ∨ Built B st i
  reach : ∀ i ∈ st.seen, Reach B roots i
  objs : ∀ n ∈ st.pyobjs, ∃ i, Reach B roots i ∧ n ∈ (B i).pyRefs
  roots : ∀ i ∈ roots, i ∈ st.seen
  pend : ∀ i ∈ pending, i ∈ st.seen
  queueSeen : ∀ i ∈ st.queue, i ∈ st.seen

theorem round_fold_inv (B : Nat → Body) (roots : List Nat) : ∀ (pending : List Nat) (st : CompSt),
    CInv B roots pending st → CInv B roots [] (pending.foldl (buildBody B) st) := by
  intro pending
  induction pending with
  | nil => intro st h; exact h
  | cons i rest ih =>
    intro st h
    simp only [List.foldl_cons]
    apply ih
    obtain ⟨g, hb, hq, ho, hs⟩ := buildBody_spec B st i
    have hri : Reach B roots i := h.reach i (h.pend i (by simp))
    refine ⟨?_, ?_, ?_, fun r hr => g.seen r (h.roots r hr), fun r hr => g.seen r (h.pend r (by simp [hr])),
      buildBody_queueSeen B st i h.queueSeen⟩
    · intro j hj
      rcases hq j hj with h1 | h1
      · rcases h.closed j h1 with h2 | h2 | h2
        · rcases List.mem_cons.1 h2 with h3 | h3
          · subst h3; exact .inr (.inr hb)
          · exact .inl h3
        · exact .inr (.inl (g.queue j h2))
        · exact .inr (.inr (h2.grow g))
      · exact .inr (.inl h1)
    · intro j hj
      rcases hs j hj with h1 | h1
      · exact h.reach j h1
      · exact .spawn hri h1
    · intro n hn
      rcases ho n hn with h1 | h1
      · exact h.objs n h1
      · exact ⟨i, hri, h1⟩

theorem round_inv (B : Nat → Body) (roots : List Nat) (st : CompSt) (h : CInv B roots [] st) :
    CInv B roots [] (round B st) := by
  unfold round
  apply round_fold_inv
  refine ⟨?_, h.reach, h.objs, h.roots, h.queueSeen, by intro i hi; cases hi⟩
  intro i hi
  rcases h.closed i hi with h1 | h1 | h1
  · cases h1
  · exact .inl h1
  · exact .inr (.inr ⟨h1.1, h1.2⟩)

theorem rounds_inv (B : Nat → Body) (roots : List Nat) : ∀ (fuel : Nat) (st st' : CompSt),
    CInv B roots [] st → rounds B fuel st = some st' → CInv B roots [] st' ∧ st'.queue = [] := by
  intro fuel
  induction fuel with
  | zero =>
    intro st st' h hr
    unfold rounds at hr
    by_cases hq : st.queue.isEmpty = true
    · simp only [hq, if_true] at hr
      injection hr with hr; subst hr
      exact ⟨h, List.isEmpty_iff.1 hq⟩
    · simp [hq] at hr
  | succ n ih =>
    intro st st' h hr
    unfold rounds at hr
    by_cases hq : st.queue.isEmpty = true
    · simp only [hq, if_true] at hr
      injection hr with hr; subst hr
      exact ⟨h, List.isEmpty_iff.1 hq⟩
    · simp only [hq, Bool.false_eq_true, if_false] at hr
      exact ih _ _ (round_inv B roots st h) hr

theorem cinv_init (B : Nat → Body) (roots : List Nat) : CInv B roots [] (roots.foldl enqueue {}) := by
  refine ⟨?_, ?_, ?_, ?_, (by intro i hi; cases hi), ?_⟩
  · intro i hi
    rcases foldl_enqueue_queue roots {} i hi with h | h
    · cases h
    · exact .inr (.inl h)
  · intro i hi
    rcases (mem_foldl_enqueue_seen roots {} i).1 hi with h | h
    · cases h
    · exact .root h
  · intro n hn
    rw [foldl_enqueue_pyobjs] at hn
    cases hn
  · intro i hi
    exact (mem_foldl_enqueue_seen roots {} i).2 (.inr hi)
  · exact foldl_enqueue_queueSeen roots {} (by intro x hx; cases hx)

/-- when the loop has run dry every reachable body is compiled -/
theorem reach_built {B : Nat → Body} {roots : List Nat} {st : CompSt} (h : CInv B roots [] st) (hq : st.queue = []) :
    ∀ i, Reach B roots i → i ∈ st.seen ∧ Built B st i := by
  have hb : ∀ i ∈ st.seen, Built B st i := by
    intro i hi
    rcases h.closed i hi with h1 | h1 | h1
    · cases h1
    · rw [hq] at h1; cases h1
    · exact h1
  intro i hr
  induction hr with
  | root hi => exact ⟨h.roots _ hi, hb _ (h.roots _ hi)⟩
  | spawn _ hj ih => exact ⟨ih.2.2 _ hj, hb _ (ih.2.2 _ hj)⟩

end LlgoVerif.PyGuard
