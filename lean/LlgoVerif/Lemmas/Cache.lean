import LlgoVerif.Model.Cache
/-!
# Lemmas for C13: sorting, the explicit hypotheses of `keyCovers_partial`, key ⇒ relevant, cache invariant
-/
namespace LlgoVerif.Cache

/-! ## insertion sort -/
section SortLemmas
variable {α : Type} (le : α → α → Bool)

theorem insertBy_perm (a : α) (l : List α) : (insertBy le a l).Perm (a :: l) := by
  induction l with
  | nil => exact List.Perm.refl _
  | cons b l ih =>
    simp only [insertBy]
    split
    · exact List.Perm.refl _
    · exact (List.Perm.cons b ih).trans (List.Perm.swap a b l)

theorem isort_perm (l : List α) : (isort le l).Perm l := by
  induction l with
  | nil => exact List.Perm.refl _
  | cons a l ih => exact (insertBy_perm le a _).trans (List.Perm.cons a ih)

theorem mem_insertBy {a b : α} {l : List α} : b ∈ insertBy le a l ↔ b = a ∨ b ∈ l := by
  rw [(insertBy_perm le a l).mem_iff]; simp

theorem mem_isort {a : α} {l : List α} : a ∈ isort le l ↔ a ∈ l := (isort_perm le l).mem_iff

theorem pairwise_insertBy (trans : ∀ a b c, le a b = true → le b c = true → le a c = true)
    (total : ∀ a b, (le a b || le b a) = true) (a : α) (l : List α)
    (h : l.Pairwise (fun x y => le x y = true)) : (insertBy le a l).Pairwise (fun x y => le x y = true) := by
  induction l with
  | nil => simp [insertBy]
  | cons b l ih =>
    simp only [insertBy]
    split
    · rename_i hab
      refine List.Pairwise.cons ?_ h
      intro c hc
      rcases List.mem_cons.1 hc with rfl | hc
      · exact hab
      · exact trans _ _ _ hab (List.rel_of_pairwise_cons h hc)
    · rename_i hab
      have hba : le b a = true := by
        have ht := total a b
        cases h1 : le a b with
        | true => exact absurd h1 hab
        | false => simpa [h1] using ht
      have h' := List.pairwise_cons.1 h
      refine List.Pairwise.cons ?_ (ih h'.2)
      intro c hc
      rcases (mem_insertBy le).1 hc with rfl | hc
      · exact hba
      · exact h'.1 c hc

theorem pairwise_isort (trans : ∀ a b c, le a b = true → le b c = true → le a c = true)
    (total : ∀ a b, (le a b || le b a) = true) (l : List α) :
    (isort le l).Pairwise (fun x y => le x y = true) := by
  induction l with
  | nil => exact List.Pairwise.nil
  | cons a l ih => exact pairwise_insertBy le trans total a _ ih

/-- the sorted list depends only on the *set* of elements, when `le` is antisymmetric on them -/
theorem isort_eq_of_perm (trans : ∀ a b c, le a b = true → le b c = true → le a c = true)
    (total : ∀ a b, (le a b || le b a) = true) {l₁ l₂ : List α} (h : l₁.Perm l₂)
    (anti : ∀ a b, a ∈ l₁ → b ∈ l₁ → le a b = true → le b a = true → a = b) :
    isort le l₁ = isort le l₂ := by
  refine List.Perm.eq_of_pairwise (le := fun x y => le x y = true) ?_ (pairwise_isort le trans total l₁)
    (pairwise_isort le trans total l₂) ((isort_perm le l₁).trans (h.trans (isort_perm le l₂).symm))
  intro a b ha hb hab hba
  exact anti a b ((mem_isort le).1 ha) (h.symm.subset ((mem_isort le).1 hb)) hab hba

/-- on lists whose elements are separated by `le`, insertion sort is `List.mergeSort` (what `sort.Slice` computes
    up to the order of ties) -/
theorem isort_eq_mergeSort (trans : ∀ a b c, le a b = true → le b c = true → le a c = true)
    (total : ∀ a b, (le a b || le b a) = true) (l : List α)
    (anti : ∀ a b, a ∈ l → b ∈ l → le a b = true → le b a = true → a = b) :
    isort le l = l.mergeSort le := by
  refine List.Perm.eq_of_pairwise (le := fun x y => le x y = true) ?_ (pairwise_isort le trans total l)
    (List.pairwise_mergeSort trans total l) ((isort_perm le l).trans (List.mergeSort_perm l le).symm)
  intro a b ha hb hab hba
  exact anti a b ((mem_isort le).1 ha) (List.mem_mergeSort.1 hb) hab hba

theorem insertBy_map {β : Type} (f : α → β) (le₂ : β → β → Bool) (h : ∀ a b, le₂ (f a) (f b) = le a b)
    (a : α) (l : List α) : insertBy le₂ (f a) (l.map f) = (insertBy le a l).map f := by
  induction l with
  | nil => rfl
  | cons b l ih =>
    simp only [List.map, insertBy, h]
    split
    · rfl
    · simp [ih]

theorem isort_map {β : Type} (f : α → β) (le₂ : β → β → Bool) (h : ∀ a b, le₂ (f a) (f b) = le a b)
    (l : List α) : isort le₂ (l.map f) = (isort le l).map f := by
  induction l with
  | nil => rfl
  | cons a l ih =>
    simp only [List.map, isort]
    rw [ih, insertBy_map le f le₂ h]

end SortLemmas

/-! ## string order -/

theorem strLe_trans (a b c : String) : strLe a b = true → strLe b c = true → strLe a c = true := by
  simp only [strLe, decide_eq_true_eq]
  exact String.le_trans

theorem strLe_total (a b : String) : (strLe a b || strLe b a) = true := by
  simp only [strLe, Bool.or_eq_true, decide_eq_true_eq]
  exact String.le_total a b

theorem strLe_antisymm (a b : String) : strLe a b = true → strLe b a = true → a = b := by
  simp only [strLe, decide_eq_true_eq]
  exact String.le_antisymm

/-! ## positional transfer -/

theorem map_eq_map_of_rel {α β γ δ : Type} (f : α → γ) (f' : β → γ) (r : α → δ) (r' : β → δ) :
    ∀ (l₁ : List α) (l₂ : List β), l₁.map f = l₂.map f' →
      (∀ a ∈ l₁, ∀ b ∈ l₂, f a = f' b → r a = r' b) → l₁.map r = l₂.map r'
  | [], [], _, _ => rfl
  | [], _ :: _, h, _ => by simp at h
  | _ :: _, [], h, _ => by simp at h
  | a :: l₁, b :: l₂, h, hp => by
    simp only [List.map, List.cons.injEq] at h ⊢
    exact ⟨hp a List.mem_cons_self b List.mem_cons_self h.1,
      map_eq_map_of_rel f f' r r' l₁ l₂ h.2 fun x hx y hy =>
        hp x (List.mem_cons_of_mem _ hx) y (List.mem_cons_of_mem _ hy)⟩

/-! ## distinct keys -/

theorem eq_of_nodup_map {α β : Type} (f : α → β) : ∀ (l : List α), (l.map f).Nodup →
    ∀ a ∈ l, ∀ b ∈ l, f a = f b → a = b
  | [], _, _, ha, _, _, _ => by cases ha
  | x :: l, h, a, ha, b, hb, hab => by
    simp only [List.map, List.nodup_cons, List.mem_map, not_exists, not_and] at h
    rcases List.mem_cons.1 ha with rfl | ha' <;> rcases List.mem_cons.1 hb with rfl | hb'
    · rfl
    · exact absurd hab.symm (h.1 b hb')
    · exact absurd hab (h.1 a ha')
    · exact eq_of_nodup_map f l h.2 a ha' b hb' hab

theorem find_key_of_mem : ∀ (l : List (String × String)), (l.map (·.1)).Nodup →
    ∀ x ∈ l, l.find? (fun kv => kv.1 == x.1) = some x
  | [], _, _, hx => by cases hx
  | y :: l, hnd, x, hx => by
    simp only [List.map, List.nodup_cons, List.mem_map, not_exists, not_and] at hnd
    rcases List.mem_cons.1 hx with rfl | hx'
    · simp [List.find?]
    · have hne : (y.1 == x.1) = false := by
        have : ¬ y.1 = x.1 := fun h => hnd.1 x hx' h.symm
        simp [this]
      simp only [List.find?, hne]
      exact find_key_of_mem l hnd.2 x hx'

theorem find_key_perm (s₁ s₂ : List (String × String)) (hp : s₁.Perm s₂) (hnd : (s₁.map (·.1)).Nodup) (n : String) :
    s₁.find? (fun kv => kv.1 == n) = s₂.find? (fun kv => kv.1 == n) := by
  by_cases h : ∃ x ∈ s₁, x.1 = n
  · obtain ⟨x, hx, rfl⟩ := h
    rw [find_key_of_mem s₁ hnd x hx, find_key_of_mem s₂ ((hp.map _).nodup_iff.1 hnd) x (hp.subset hx)]
  · have h1 : s₁.find? (fun kv => kv.1 == n) = none :=
      List.find?_eq_none.2 (fun x hx => by simp only [beq_iff_eq]; exact fun e => h ⟨x, hx, e⟩)
    have h2 : s₂.find? (fun kv => kv.1 == n) = none :=
      List.find?_eq_none.2 (fun x hx => by simp only [beq_iff_eq]; exact fun e => h ⟨x, hp.symm.subset hx, e⟩)
    rw [h1, h2]

/-! ## the explicit hypotheses -/

/-- the files whose digests enter the manifest of one package -/
def diskFiles (g : Global) (d : PkgData) : List File := selected g d.goFiles ++ d.altFiles ++ d.otherFiles

/-- all digested files of a unit: target extra files + the files of every package of the tree -/
def Inputs.files (i : Inputs) : List File := i.1.extraFiles.map File.noOverlay ++ i.2.all.flatMap (diskFiles i.1)

/-- **H1** an edit that keeps path and size also changes the modification time (disk files; overlay files are
    content-hashed) -/
def mtimeChangesWithContent (i₁ i₂ : Inputs) : Prop :=
  ∀ f₁ ∈ i₁.files, ∀ f₂ ∈ i₂.files, f₁.overlay = none → f₂.overlay = none →
    f₁.path = f₂.path → f₁.size = f₂.size → f₁.mtime = f₂.mtime → f₁.content = f₂.content

/-- **H2** no package uses `LLGoFiles` -/
def noSideCFiles (i : Inputs) : Prop := ∀ d ∈ i.2.all, d.sideFiles = []

/-- **H3** `CCFLAGS`, `CFLAGS`, `LDFLAGS` are the same in both environments -/
def sameCompilerEnv (i₁ i₂ : Inputs) : Prop :=
  compilerEnvVars.map (getenv i₁.1) = compilerEnvVars.map (getenv i₂.1)

/-- **H4** no package uses `//go:embed` -/
def noEmbed (i : Inputs) : Prop := ∀ d ∈ i.2.all, d.embedFiles = []

instance (i₁ i₂ : Inputs) : Decidable (mtimeChangesWithContent i₁ i₂) := by
  unfold mtimeChangesWithContent; exact inferInstance
instance (i : Inputs) : Decidable (noSideCFiles i) := by unfold noSideCFiles; exact inferInstance
instance (i₁ i₂ : Inputs) : Decidable (sameCompilerEnv i₁ i₂) := by unfold sameCompilerEnv; exact inferInstance
instance (i : Inputs) : Decidable (noEmbed i) := by unfold noEmbed; exact inferInstance

/-- the conjunction under which the transcribed key of variant `cfg` determines the relevant inputs: H1 is needed only
    without content hashes, H3 only when the compiler environment is not in the manifest -/
def Hyp (cfg : Cfg) (i₁ i₂ : Inputs) : Prop :=
  (cfg.contentHash = false → mtimeChangesWithContent i₁ i₂) ∧ noSideCFiles i₁ ∧ noSideCFiles i₂
    ∧ (cfg.ccflagsEnv = false → sameCompilerEnv i₁ i₂) ∧ noEmbed i₁ ∧ noEmbed i₂

instance (cfg : Cfg) (i₁ i₂ : Inputs) : Decidable (Hyp cfg i₁ i₂) := by unfold Hyp; exact inferInstance

theorem mem_allL {t : PkgT} {ts : List PkgT} (ht : t ∈ ts) : ∀ x ∈ t.all, x ∈ PkgT.allL ts := by
  induction ts with
  | nil => cases ht
  | cons u us ih =>
    intro x hx
    simp only [PkgT.allL, List.mem_append]
    rcases List.mem_cons.1 ht with rfl | h
    · exact Or.inl hx
    · exact Or.inr (ih h x hx)

theorem all_sub {d : PkgData} {deps : List PkgT} {t : PkgT} (ht : t ∈ deps) :
    ∀ x ∈ t.all, x ∈ (PkgT.mk d deps).all := fun x hx => by
  simp only [PkgT.all, List.mem_cons]
  exact Or.inr (mem_allL ht x hx)

theorem files_sub {g : Global} {d : PkgData} {deps : List PkgT} {t : PkgT} (ht : t ∈ deps) :
    ∀ f ∈ Inputs.files (g, t), f ∈ Inputs.files (g, PkgT.mk d deps) := fun f hf => by
  simp only [Inputs.files, List.mem_append, List.mem_flatMap] at hf ⊢
  rcases hf with hf | ⟨x, hx, hf⟩
  · exact Or.inl hf
  · exact Or.inr ⟨x, all_sub ht x hx, hf⟩

theorem Hyp.sub {cfg : Cfg} {g₁ g₂ : Global} {d₁ d₂ : PkgData} {deps₁ deps₂ : List PkgT} {a b : PkgT}
    (h : Hyp cfg (g₁, .mk d₁ deps₁) (g₂, .mk d₂ deps₂)) (ha : a ∈ deps₁) (hb : b ∈ deps₂) : Hyp cfg (g₁, a) (g₂, b) := by
  obtain ⟨h1, h2, h3, h4, h5, h6⟩ := h
  refine ⟨?_, ?_, ?_, h4, ?_, ?_⟩
  · exact fun hc f₁ hf₁ f₂ hf₂ => h1 hc f₁ (files_sub ha f₁ hf₁) f₂ (files_sub hb f₂ hf₂)
  · exact fun d hd => h2 d (all_sub ha d hd)
  · exact fun d hd => h3 d (all_sub hb d hd)
  · exact fun d hd => h5 d (all_sub ha d hd)
  · exact fun d hd => h6 d (all_sub hb d hd)

/-! ## digests ⇒ contents -/

section KeyLemmas
variable {φ : Type} (cfg : Cfg) (hb : Bytes → φ) (fp : Manifest φ → φ)

theorem digestFile_path (f : File) : (digestFile cfg hb f).path = f.path := by
  unfold digestFile; split <;> rfl

theorem digestFiles_eq (fs : List File) :
    digestFiles cfg hb fs = (isort (fun a b => strLe a.path b.path) fs).map (digestFile cfg hb) := by
  unfold digestFiles
  exact isort_map _ (digestFile cfg hb) _ (fun a b => by simp [digestFile_path]) fs

theorem relFiles_eq (fs : List File) :
    relFiles fs = (isort (fun a b => strLe a.path b.path) fs).map (fun f => (f.path, f.effective)) := by
  unfold relFiles
  exact isort_map _ (fun f : File => (f.path, f.effective)) _ (fun a b => rfl) fs

/-- equal digests ⇒ equal content: by the content hash when the variant has one, else by hypothesis H1 -/
theorem digest_content (hinj : Function.Injective hb) (f₁ f₂ : File)
    (hm : cfg.contentHash = false → f₁.overlay = none → f₂.overlay = none → f₁.path = f₂.path → f₁.size = f₂.size →
      f₁.mtime = f₂.mtime → f₁.content = f₂.content)
    (h : digestFile cfg hb f₁ = digestFile cfg hb f₂) : (f₁.path, f₁.effective) = (f₂.path, f₂.effective) := by
  unfold digestFile at h
  unfold File.effective
  cases h1 : f₁.overlay <;> cases h2 : f₂.overlay <;> simp only [h1, h2, FileDigest.mk.injEq] at h
  · obtain ⟨hp, hs, ht, hsha, _⟩ := h
    cases hc : cfg.contentHash
    · simp [hp, hm hc h1 h2 hp hs ht]
    · simp only [hc, if_true, Option.some.injEq] at hsha
      simp [hp, hinj hsha]
  · exact absurd h.2.2.2.2 (by simp)
  · exact absurd h.2.2.2.2 (by simp)
  · obtain ⟨hp, _, _, _, hh⟩ := h
    have := hinj (Option.some.inj hh)
    simp [hp, this]

theorem relFiles_of_digestFiles (hinj : Function.Injective hb) (fs₁ fs₂ : List File)
    (hm : cfg.contentHash = false → ∀ f₁ ∈ fs₁, ∀ f₂ ∈ fs₂, f₁.overlay = none → f₂.overlay = none → f₁.path = f₂.path →
      f₁.size = f₂.size → f₁.mtime = f₂.mtime → f₁.content = f₂.content)
    (h : digestFiles cfg hb fs₁ = digestFiles cfg hb fs₂) : relFiles fs₁ = relFiles fs₂ := by
  rw [digestFiles_eq, digestFiles_eq] at h
  rw [relFiles_eq, relFiles_eq]
  refine map_eq_map_of_rel _ _ _ _ _ _ h ?_
  intro a ha b hb' hd
  exact digest_content cfg hb hinj a b (fun hc => hm hc a ((mem_isort _).1 ha) b ((mem_isort _).1 hb')) hd

/-! ## environment variables -/

theorem fst_mem_of_mem_envFilter (v : String → String) (names : List String) (x : String × String)
    (hx : x ∈ names.filterMap (fun n => if v n ≠ "" then some (n, v n) else none)) : x.1 ∈ names := by
  simp only [List.mem_filterMap] at hx
  obtain ⟨n, hn, h⟩ := hx
  split at h
  · cases h; exact hn
  · cases h

theorem map_eq_of_envFilter_eq (v₁ v₂ : String → String) : ∀ (names : List String), names.Nodup →
    names.filterMap (fun n => if v₁ n ≠ "" then some (n, v₁ n) else none)
      = names.filterMap (fun n => if v₂ n ≠ "" then some (n, v₂ n) else none) →
    names.map v₁ = names.map v₂
  | [], _, _ => rfl
  | n :: ns, hnd, h => by
    have hnd' := List.nodup_cons.1 hnd
    by_cases h1 : v₁ n = "" <;> by_cases h2 : v₂ n = ""
    · simp only [List.filterMap_cons, h1, h2, ne_eq, not_true_eq_false, ite_false] at h
      simp only [List.map, h1, h2]
      rw [map_eq_of_envFilter_eq v₁ v₂ ns hnd'.2 h]
    · simp only [List.filterMap_cons, h1, h2, ne_eq, not_true_eq_false, not_false_eq_true, ite_false, ite_true] at h
      have hm : (n, v₂ n) ∈ ns.filterMap (fun n => if v₁ n ≠ "" then some (n, v₁ n) else none) := by
        rw [h]; exact List.mem_cons_self
      exact absurd (fst_mem_of_mem_envFilter v₁ ns _ hm) hnd'.1
    · simp only [List.filterMap_cons, h1, h2, ne_eq, not_true_eq_false, not_false_eq_true, ite_false, ite_true] at h
      have hm : (n, v₁ n) ∈ ns.filterMap (fun n => if v₂ n ≠ "" then some (n, v₂ n) else none) := by
        rw [← h]; exact List.mem_cons_self
      exact absurd (fst_mem_of_mem_envFilter v₂ ns _ hm) hnd'.1
    · simp only [List.filterMap_cons, h1, h2, ne_eq, not_false_eq_true, ite_true, List.cons.injEq,
        Prod.mk.injEq, true_and] at h
      simp only [List.map, h.1]
      rw [map_eq_of_envFilter_eq v₁ v₂ ns hnd'.2 h.2]

theorem OptLevel.flag_inj {a b : OptLevel} (h : a.flag = b.flag) : a = b := by
  cases a <;> cases b <;> first | rfl | (revert h; decide)

/-! ## key ⇒ relevant -/

theorem envNames_nodup (cfg : Cfg) : (envNames cfg).Nodup := by
  unfold envNames; split <;> decide

theorem globRel_of_sections (hinj : Function.Injective hb) (g₁ g₂ : Global)
    (hm : cfg.contentHash = false → ∀ f₁ ∈ g₁.extraFiles.map File.noOverlay, ∀ f₂ ∈ g₂.extraFiles.map File.noOverlay,
      f₁.overlay = none → f₂.overlay = none → f₁.path = f₂.path →
      f₁.size = f₂.size → f₁.mtime = f₂.mtime → f₁.content = f₂.content)
    (henv : cfg.ccflagsEnv = false → compilerEnvVars.map (getenv g₁) = compilerEnvVars.map (getenv g₂))
    (he : envSection cfg g₁ = envSection cfg g₂) (hc : commonSection cfg hb g₁ = commonSection cfg hb g₂) :
    globRel g₁ = globRel g₂ := by
  simp only [envSection, EnvSection.mk.injEq] at he
  simp only [commonSection, CommonSection.mk.injEq, exportCCFlags, List.cons.injEq] at hc
  obtain ⟨e1, e2, e3, e4, e5, e6, e7, e8⟩ := he
  obtain ⟨c1, _, c3, c4, c5, ⟨c6, c6'⟩, c7, c8, c9, c10⟩ := hc
  have hv := map_eq_of_envFilter_eq (getenv g₁) (getenv g₂) (envNames cfg) (envNames_nodup cfg) e8
  have hx := relFiles_of_digestFiles cfg hb hinj _ _ hm c10
  have hboth : listedEnvVars.map (getenv g₁) = listedEnvVars.map (getenv g₂)
      ∧ compilerEnvVars.map (getenv g₁) = compilerEnvVars.map (getenv g₂) := by
    cases hcc : cfg.ccflagsEnv
    · simp only [envNames, hcc, Bool.false_eq_true, if_false] at hv
      exact ⟨hv, henv hcc⟩
    · simp only [envNames, hcc, if_true, List.map_append] at hv
      have := List.append_inj hv (by simp)
      exact ⟨this.2, this.1⟩
  have hsem : listedEnvVars.map (fun n => envMeaning n (getenv g₁ n)) = listedEnvVars.map (fun n => envMeaning n (getenv g₂ n)) := by
    apply List.map_congr_left
    intro n hn
    rw [List.map_inj_left.1 hboth.1 n hn]
  simp only [globRel, GlobRel.mk.injEq]
  exact ⟨e1, e2, c3, c4, e6, c1, OptLevel.flag_inj c6, e3, e4, e5, e7, c5, c6', c7, c8, c9, hx, hsem, hboth.2⟩

theorem ownRel_of_section (hinj : Function.Injective hb) (g₁ g₂ : Global) (d₁ d₂ : PkgData)
    (hm : cfg.contentHash = false → ∀ f₁ ∈ diskFiles g₁ d₁, ∀ f₂ ∈ diskFiles g₂ d₂, f₁.overlay = none → f₂.overlay = none →
      f₁.path = f₂.path → f₁.size = f₂.size → f₁.mtime = f₂.mtime → f₁.content = f₂.content)
    (hs₁ : d₁.sideFiles = []) (hs₂ : d₂.sideFiles = []) (he₁ : d₁.embedFiles = []) (he₂ : d₂.embedFiles = [])
    (hp : packageSection cfg hb g₁ d₁ = packageSection cfg hb g₂ d₂) : ownRel g₁ d₁ = ownRel g₂ d₂ := by
  simp only [packageSection, PackageSection.mk.injEq] at hp
  obtain ⟨p1, p2, p3, p4, p5, p6⟩ := hp
  have hgo := relFiles_of_digestFiles cfg hb hinj _ _
    (fun hc f₁ h₁ f₂ h₂ => hm hc f₁ (by simp [diskFiles, h₁]) f₂ (by simp [diskFiles, h₂])) p3
  have halt := relFiles_of_digestFiles cfg hb hinj _ _
    (fun hc f₁ h₁ f₂ h₂ => hm hc f₁ (by simp [diskFiles, h₁]) f₂ (by simp [diskFiles, h₂])) p4
  have hoth := relFiles_of_digestFiles cfg hb hinj _ _
    (fun hc f₁ h₁ f₂ h₂ => hm hc f₁ (by simp [diskFiles, h₁]) f₂ (by simp [diskFiles, h₂])) p5
  simp only [ownRel, OwnRel.mk.injEq, hs₁, hs₂, he₁, he₂]
  exact ⟨p1, p2, hgo, halt, hoth, trivial, trivial, p6⟩

/-- `dependencyFingerprint` of one import -/
def entryOf (g : Global) (t : PkgT) : DepEntry φ :=
  if t.data.modVersion ≠ "" then { id := t.data.id, version := t.data.modVersion, fingerprint := none }
  else { id := t.data.id, version := "", fingerprint := some (fp (key cfg hb fp g t)) }

def relOf (g : Global) (t : PkgT) : Rel :=
  if t.data.modVersion ≠ "" then .versioned t.data.id t.data.modVersion else relevant g t

theorem depEntries_eq_map (g : Global) (ts : List PkgT) : depEntries cfg hb fp g ts = ts.map (entryOf cfg hb fp g) := by
  induction ts with
  | nil => simp [depEntries]
  | cons t ts ih => simp [depEntries, entryOf, ih]

theorem depRels_eq_map (g : Global) (ts : List PkgT) : depRels g ts = ts.map (relOf g) := by
  induction ts with
  | nil => simp [depRels]
  | cons t ts ih => simp [depRels, relOf, ih]

theorem entryOf_id (g : Global) (t : PkgT) : (entryOf cfg hb fp g t).id = t.data.id := by
  unfold entryOf; split <;> rfl

theorem relOf_id (g : Global) (t : PkgT) : (relOf g t).id = t.data.id := by
  unfold relOf
  split
  · rfl
  · cases t with
    | mk d ds => simp [relevant, Rel.id, ownRel, PkgT.data]

def tLe (a b : PkgT) : Bool := strLe a.data.id b.data.id

theorem key_deps_eq (g : Global) (d : PkgData) (deps : List PkgT) :
    (key cfg hb fp g (.mk d deps)).deps
      = (isort tLe (deps.filter fun t => t.data.id != d.id)).map (entryOf cfg hb fp g) := by
  simp only [key]
  rw [depEntries_eq_map, List.filter_map]
  have : ((fun e : DepEntry φ => e.id != d.id) ∘ entryOf cfg hb fp g) = fun t => t.data.id != d.id := by
    funext t; simp [Function.comp, entryOf_id]
  rw [this]
  exact isort_map tLe (entryOf cfg hb fp g) depLe (fun a b => by simp [depLe, tLe, entryOf_id]) _

theorem relevant_deps_eq (g : Global) (d : PkgData) (deps : List PkgT) :
    relevant g (.mk d deps) = .pkg (globRel g) (ownRel g d)
      ((isort tLe (deps.filter fun t => t.data.id != d.id)).map (relOf g)) := by
  simp only [relevant]
  rw [depRels_eq_map, List.filter_map]
  have : ((fun r : Rel => r.id != d.id) ∘ relOf g) = fun t => t.data.id != d.id := by
    funext t; simp [Function.comp, relOf_id]
  rw [this]
  congr 1
  exact isort_map tLe (relOf g) relLe (fun a b => by simp [relLe, tLe, relOf_id]) _

/-- **the key determines the relevant inputs, under `Hyp`** (proved from the transcribed `key`) -/
theorem key_covers_of_hyp (hbi : Function.Injective hb) (fpi : Function.Injective fp) :
    (t₁ : PkgT) → ∀ (g₁ g₂ : Global) (t₂ : PkgT), Hyp cfg (g₁, t₁) (g₂, t₂) →
      key cfg hb fp g₁ t₁ = key cfg hb fp g₂ t₂ → relevant g₁ t₁ = relevant g₂ t₂
  | .mk d₁ deps₁, g₁, g₂, .mk d₂ deps₂, hyp, hk => by
    have hdeps : (key cfg hb fp g₁ (.mk d₁ deps₁)).deps = (key cfg hb fp g₂ (.mk d₂ deps₂)).deps := by rw [hk]
    rw [key_deps_eq, key_deps_eq] at hdeps
    have henv : (key cfg hb fp g₁ (.mk d₁ deps₁)).env = (key cfg hb fp g₂ (.mk d₂ deps₂)).env := by rw [hk]
    have hcom : (key cfg hb fp g₁ (.mk d₁ deps₁)).common = (key cfg hb fp g₂ (.mk d₂ deps₂)).common := by rw [hk]
    have hpkg : (key cfg hb fp g₁ (.mk d₁ deps₁)).pkg = (key cfg hb fp g₂ (.mk d₂ deps₂)).pkg := by rw [hk]
    simp only [key] at henv hcom hpkg
    obtain ⟨h1, h2, h3, h4, h5, h6⟩ := hyp
    have hg : globRel g₁ = globRel g₂ :=
      globRel_of_sections cfg hb hbi g₁ g₂
        (fun hc f₁ hf₁ f₂ hf₂ => h1 hc f₁ (by simp [Inputs.files, hf₁]) f₂ (by simp [Inputs.files, hf₂])) h4 henv hcom
    have ho : ownRel g₁ d₁ = ownRel g₂ d₂ :=
      ownRel_of_section cfg hb hbi g₁ g₂ d₁ d₂
        (fun hc f₁ hf₁ f₂ hf₂ => h1 hc f₁ (by
            simp only [Inputs.files, List.mem_append, List.mem_flatMap]
            exact Or.inr ⟨d₁, by simp [PkgT.all], hf₁⟩) f₂ (by
            simp only [Inputs.files, List.mem_append, List.mem_flatMap]
            exact Or.inr ⟨d₂, by simp [PkgT.all], hf₂⟩))
        (h2 d₁ (by simp [PkgT.all])) (h3 d₂ (by simp [PkgT.all]))
        (h5 d₁ (by simp [PkgT.all])) (h6 d₂ (by simp [PkgT.all])) hpkg
    rw [relevant_deps_eq, relevant_deps_eq, hg, ho]
    congr 1
    refine map_eq_map_of_rel _ _ _ _ _ _ hdeps ?_
    intro a ha b hb' he
    have ha' : a ∈ deps₁ := (List.mem_filter.1 ((mem_isort _).1 ha)).1
    have hb'' : b ∈ deps₂ := (List.mem_filter.1 ((mem_isort _).1 hb')).1
    unfold entryOf at he
    unfold relOf
    by_cases va : a.data.modVersion = "" <;> by_cases vb : b.data.modVersion = ""
    · simp only [va, vb, ne_eq, not_true_eq_false, ite_false, DepEntry.mk.injEq, true_and] at he ⊢
      have hkk := fpi (Option.some.inj he.2)
      exact key_covers_of_hyp hbi fpi a g₁ g₂ b
        (Hyp.sub (d₁ := d₁) (d₂ := d₂) ⟨h1, h2, h3, h4, h5, h6⟩ ha' hb'') hkk
    · simp only [va, vb, ne_eq, not_true_eq_false, not_false_eq_true, ite_false, ite_true, DepEntry.mk.injEq] at he
      exact absurd he.2.1.symm vb
    · simp only [va, vb, ne_eq, not_true_eq_false, not_false_eq_true, ite_false, ite_true, DepEntry.mk.injEq] at he
      exact he.2.1.elim
    · simp only [va, vb, ne_eq, not_false_eq_true, ite_true, DepEntry.mk.injEq] at he ⊢
      rw [he.1, he.2.1]
termination_by t₁ => sizeOf t₁
decreasing_by
  have := List.sizeOf_lt_of_mem ha'
  simp only [PkgT.mk.sizeOf_spec]
  omega

end KeyLemmas

/-! ## the cache invariant -/

section Invariant
variable {φ : Type} [DecidableEq φ] (cfg : Cfg) (hb : Bytes → φ) (fp : Manifest φ → φ)
variable {Obj Stored : Type} (compileRel : Rel → Obj) (storeObj : Obj → Stored) (loadObj : Stored → Obj)

/-- every entry was produced by compiling *some* unit (in the universe `S`) that has this fingerprint -/
def CacheOK (S : Inputs → Prop) (c : CacheMap φ Stored) : Prop :=
  ∀ e ∈ c, ∃ g t, S (g, t) ∧ e.1 = fp (key cfg hb fp g t) ∧ e.2 = storeObj (compileRel (relevant g t))

/-- the key determines the relevant inputs on the units of `S` -/
def KeyCoversOn (S : Inputs → Prop) : Prop :=
  ∀ i₁ i₂ : Inputs, S i₁ → S i₂ → key cfg hb fp i₁.1 i₁.2 = key cfg hb fp i₂.1 i₂.2 → relevant i₁.1 i₁.2 = relevant i₂.1 i₂.2

theorem lookup_mem {c : CacheMap φ Stored} {k : φ} {o : Stored} (h : lookup c k = some o) : (k, o) ∈ c := by
  unfold lookup at h
  split at h
  · rename_i e he
    have hk : e.1 = k := by simpa using List.find?_some he
    have hm := List.mem_of_find?_eq_some he
    cases h
    cases e
    simp only at hk
    subst hk
    exact hm
  · cases h

theorem buildPkg_ok (S : Inputs → Prop) (fpi : Function.Injective fp) (hround : ∀ o, loadObj (storeObj o) = o)
    (hk : KeyCoversOn cfg hb fp S)
    (o : BuildOpts) (g : Global) (c : CacheMap φ Stored) (t : PkgT) (hS : S (g, t))
    (hc : CacheOK cfg hb fp compileRel storeObj S c) :
    (buildPkg cfg hb fp compileRel storeObj loadObj o g c t).2 = compileRel (relevant g t)
      ∧ CacheOK cfg hb fp compileRel storeObj S (buildPkg cfg hb fp compileRel storeObj loadObj o g c t).1 := by
  unfold buildPkg
  simp only
  split
  · rename_i obj hl
    refine ⟨?_, hc⟩
    split at hl
    · obtain ⟨g', t', hS', hk', ho'⟩ := hc _ (lookup_mem hl)
      simp only at hk' ho'
      have := hk (g, t) (g', t') hS hS' (fpi hk')
      simp only at this
      rw [ho', this, hround]
    · cases hl
  · refine ⟨rfl, ?_⟩
    split
    · intro e he
      rcases List.mem_cons.1 he with rfl | he
      · exact ⟨g, t, hS, rfl, rfl⟩
      · exact hc e he
    · exact hc

theorem buildProg_ok (S : Inputs → Prop) (fpi : Function.Injective fp) (hround : ∀ o, loadObj (storeObj o) = o)
    (hk : KeyCoversOn cfg hb fp S)
    (o : BuildOpts) (g : Global) : ∀ (ts : List PkgT) (c : CacheMap φ Stored), (∀ t ∈ ts, S (g, t)) →
      CacheOK cfg hb fp compileRel storeObj S c →
      (buildProg cfg hb fp compileRel storeObj loadObj o g c ts).2 = cleanBuild compileRel g ts
        ∧ CacheOK cfg hb fp compileRel storeObj S (buildProg cfg hb fp compileRel storeObj loadObj o g c ts).1
  | [], c, _, hc => ⟨rfl, hc⟩
  | t :: ts, c, hS, hc => by
    have h1 := buildPkg_ok cfg hb fp compileRel storeObj loadObj S fpi hround hk o g c t (hS t List.mem_cons_self) hc
    have h2 := buildProg_ok S fpi hround hk o g ts _ (fun u hu => hS u (List.mem_cons_of_mem _ hu)) h1.2
    simp only [buildProg, cleanBuild, List.map]
    exact ⟨by rw [h1.1, h2.1]; rfl, h2.2⟩

def ProgIn (S : Inputs → Prop) (p : Program) : Prop := ∀ t ∈ p.pkgs, S (p.glob, t)

def StepIn (S : Inputs → Prop) : Step → Prop
  | .edit p => ProgIn S p
  | _ => True

structure Inv (S : Inputs → Prop) (s : State φ Stored Obj) : Prop where
  prog : ProgIn S s.prog
  cache : CacheOK cfg hb fp compileRel storeObj S s.cache
  trace : ∀ po ∈ s.trace, po.2 = cleanBuild compileRel po.1.glob po.1.pkgs

theorem step_inv (S : Inputs → Prop) (fpi : Function.Injective fp) (hround : ∀ o, loadObj (storeObj o) = o)
    (hk : KeyCoversOn cfg hb fp S)
    (s : State φ Stored Obj) (st : Step) (hst : StepIn S st) (h : Inv cfg hb fp compileRel storeObj S s) :
    Inv cfg hb fp compileRel storeObj S (step cfg hb fp compileRel storeObj loadObj s st) := by
  cases st with
  | edit p => exact ⟨hst, h.cache, h.trace⟩
  | clean => exact ⟨h.prog, fun e he => (by cases he), h.trace⟩
  | build o =>
    have hb' := buildProg_ok cfg hb fp compileRel storeObj loadObj S fpi hround hk o s.prog.glob s.prog.pkgs s.cache h.prog h.cache
    refine ⟨h.prog, hb'.2, ?_⟩
    intro po hpo
    simp only [step] at hpo
    rcases List.mem_cons.1 hpo with rfl | hpo
    · exact hb'.1
    · exact h.trace po hpo

theorem run_inv (S : Inputs → Prop) (fpi : Function.Injective fp) (hround : ∀ o, loadObj (storeObj o) = o)
    (hk : KeyCoversOn cfg hb fp S) :
    ∀ (steps : List Step) (s : State φ Stored Obj), (∀ st ∈ steps, StepIn S st) → Inv cfg hb fp compileRel storeObj S s →
      Inv cfg hb fp compileRel storeObj S (run cfg hb fp compileRel storeObj loadObj s steps)
  | [], _, _, h => h
  | st :: rest, s, hs, h =>
    run_inv S fpi hround hk rest _ (fun x hx => hs x (List.mem_cons_of_mem _ hx))
      (step_inv cfg hb fp compileRel storeObj loadObj S fpi hround hk s st (hs st List.mem_cons_self) h)

theorem run_append (s : State φ Stored Obj) (a b : List Step) :
    run cfg hb fp compileRel storeObj loadObj s (a ++ b) = run cfg hb fp compileRel storeObj loadObj (run cfg hb fp compileRel storeObj loadObj s a) b := by
  induction a generalizing s with
  | nil => rfl
  | cons x xs ih => simp only [List.cons_append, run]; exact ih _

/-- two units with the same fingerprint: after `build, edit, build` the second build hands out the FIRST unit's archive -/
theorem served_stale (g₁ g₂ : Global) (t₁ t₂ : PkgT) (hk : fp (key cfg hb fp g₂ t₂) = fp (key cfg hb fp g₁ t₁))
    (hn : (t₁.data.name != "main") = true) (hkind₁ : cachedKind t₁.data = true) (hkind₂ : cachedKind t₂.data = true) :
    served cfg hb fp compileRel storeObj loadObj ⟨g₁, [t₁]⟩ [.build {}, .edit ⟨g₂, [t₂]⟩, .build {}]
      = some [loadObj (storeObj (compileRel (relevant g₁ t₁)))] := by
  simp [served, run, step, State.init, buildProg, buildPkg, lookup, List.find?, hk, hn, hkind₁, hkind₂]

end Invariant

/-! ## the metadata round trip -/

/-- **`load (store m) = m`**: what `tryLoadFromCache` reads back is what `saveToCache` was given — link arguments with
    their order and multiplicity, `NeedRt`, `NeedPyInit` (an all-zero record is stored as "no metadata section") -/
theorem loadMeta_storeMeta (m : Meta) : loadMeta (storeMeta m) = m := by
  unfold storeMeta
  split
  · rename_i h
    obtain ⟨h1, h2, h3⟩ := h
    cases m
    simp_all [loadMeta]
  · rfl

theorem loadArtifact_storeArtifact {A : Type} (a : Artifact A) : loadArtifact (storeArtifact a) = a := by
  cases a
  simp [loadArtifact, storeArtifact, loadMeta_storeMeta]

/-! ## listings: the specification of a deterministic emission loop -/

/-- strictly increasing (Go: `sort.Strings` on distinct names) -/
def StrictSorted (l : List String) : Prop := l.Pairwise (fun x y => strLe x y = true ∧ x ≠ y)

/-- `l` is THE listing of the set `P`: strictly increasing, and a name occurs iff it is in `P` -/
def ListingOf (P : String → Prop) (l : List String) : Prop := StrictSorted l ∧ ∀ n, n ∈ l ↔ P n

theorem strictSorted_nodup {l : List String} (h : StrictSorted l) : l.Nodup :=
  List.Pairwise.imp (fun hxy => hxy.2) h

theorem filter_keys_nodup (filter : String → Bool) (syms : List (String × String)) (hnd : (syms.map (·.1)).Nodup) :
    ((syms.filter fun kv => filter kv.1).map (·.1)).Nodup :=
  List.Nodup.sublist ((List.filter_sublist (l := syms)).map _) hnd

/-! ## the no-op rebuild -/

section NoopRebuild
variable {φ : Type} [DecidableEq φ] (cfg : Cfg) (hb : Bytes → φ) (fp : Manifest φ → φ)
variable {Obj Stored : Type} (compileRel : Rel → Obj) (storeObj : Obj → Stored) (loadObj : Stored → Obj)

/-- `build, build` of one cacheable package: the second build hands out what `tryLoadFromCache` makes of what
    `saveToCache` kept of the first build's output -/
theorem served_noop_rebuild (g : Global) (t : PkgT)
    (hn : (t.data.name != "main") = true) (hkind : cachedKind t.data = true) :
    served cfg hb fp compileRel storeObj loadObj ⟨g, [t]⟩ [.build {}, .build {}]
      = some [loadObj (storeObj (compileRel (relevant g t)))] := by
  simp [served, run, step, State.init, buildProg, buildPkg, lookup, List.find?, hn, hkind]

end NoopRebuild

end LlgoVerif.Cache
