import LlgoVerif.Model.Shell
/-! Helper lemmas for C17 (shellparse round trip, safesplit round trip, tag parsing). -/
namespace LlgoVerif.Shell

/-- inside double quotes: consuming `esc a ++ '"' :: rest` appends `a` and closes the quote -/
theorem run_inq (a : List Char) : ∀ (args : List (List Char)) (cur rest : List Char),
    run { args := args, cur := cur, inQ := true, q := '"', has := true } (esc a ++ '"' :: rest)
  = run { args := args, cur := a.reverse ++ cur, inQ := false, q := ' ', has := true } rest := by
  induction a with
  | nil => intro args cur rest; simp [esc, run_cons, step]
  | cons c cs ih =>
    intro args cur rest
    by_cases h1 : c = '"'
    · subst h1; simp [esc, run_cons, step, ih]
    · by_cases h2 : c = '\\'
      · subst h2; simp [esc, run_cons, step, ih]
      · simp [esc, h1, h2, run_cons, step, ih]

theorem run_quote1 (a : List Char) (args : List (List Char)) (rest : List Char) :
    run { args := args, cur := [], inQ := false, q := ' ', has := false } (quote1 a ++ rest)
  = run { args := args, cur := a.reverse, inQ := false, q := ' ', has := true } rest := by
  simp [quote1, run_cons, step, run_inq]

theorem isSpace_space : isSpace ' ' = true := by decide

theorem run_join : ∀ (as : List (List Char)) (a : List Char) (done : List (List Char)),
    run { args := done, cur := [], inQ := false, q := ' ', has := false } (join (a :: as))
  = { args := done ++ (a :: as).dropLast, cur := ((a :: as).getLast (by simp)).reverse,
      inQ := false, q := ' ', has := true } := by
  intro as
  induction as with
  | nil =>
    intro a done
    have := run_quote1 a done []
    simp only [List.append_nil] at this
    simp [join, this, run_nil]
  | cons b bs ih =>
    intro a done
    simp only [join]
    rw [run_quote1, run_cons]
    simp [step, isSpace_space]
    rw [ih]
    simp

/-- inside single quotes nothing is special except the closing quote -/
theorem run_insq (a : List Char) (h : '\'' ∉ a) : ∀ (args : List (List Char)) (cur rest : List Char),
    run { args := args, cur := cur, inQ := true, q := '\'', has := true } (a ++ '\'' :: rest)
  = run { args := args, cur := a.reverse ++ cur, inQ := false, q := ' ', has := true } rest := by
  induction a with
  | nil => intro args cur rest; simp [run_cons, step]
  | cons c cs ih =>
    intro args cur rest
    have hc : c ≠ '\'' := by intro e; exact h (by simp [e])
    have hcs : '\'' ∉ cs := by intro e; exact h (by simp [e])
    by_cases h2 : c = '\\'
    · subst h2
      cases cs with
      | nil => simp [run_cons, step]
      | cons d ds =>
        have := ih hcs args ('\\' :: cur) rest
        simp [run_cons, step] at this ⊢
        exact this
    · have := ih hcs args (c :: cur) rest
      simp [run_cons, step, hc, h2] at this ⊢
      exact this

theorem run_squote1 (a : List Char) (h : '\'' ∉ a) (args : List (List Char)) (rest : List Char) :
    run { args := args, cur := [], inQ := false, q := ' ', has := false } (squote1 a ++ rest)
  = run { args := args, cur := a.reverse, inQ := false, q := ' ', has := true } rest := by
  have := run_insq a h args [] rest
  simp [squote1, run_cons, step] at this ⊢
  exact this

theorem run_sjoin : ∀ (as : List (List Char)) (a : List Char) (done : List (List Char)),
    (∀ x ∈ a :: as, '\'' ∉ x) →
    run { args := done, cur := [], inQ := false, q := ' ', has := false } (sjoin (a :: as))
  = { args := done ++ (a :: as).dropLast, cur := ((a :: as).getLast (by simp)).reverse,
      inQ := false, q := ' ', has := true } := by
  intro as
  induction as with
  | nil =>
    intro a done h
    have := run_squote1 a (h a (by simp)) done []
    simp only [List.append_nil] at this
    simp [sjoin, this, run_nil]
  | cons b bs ih =>
    intro a done h
    simp only [sjoin]
    rw [run_squote1 a (h a (by simp)), run_cons]
    simp [step, isSpace_space]
    rw [ih]
    · simp
    · intro x hx; exact h x (by simp at hx ⊢; right; exact hx)

end LlgoVerif.Shell
