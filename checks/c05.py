"""C05 — slices and strings: append, copy, slicing, iteration and conversion semantics.

Lean: LlgoVerif/Model/Slice.lean (+ Model/Utf8.lean), Spec/Slice.lean, Lemmas/Slice.lean, Props/C05.lean.
Tie (B-N): llgo's z_slice.go / z_string.go / utf8.go are copied verbatim from the working tree and compiled natively
(vlib/native.py); a script interpreter (harness/c05/main.go.txt) drives them; the compiled Lean model (modeld_c05)
answers the same lines; the two streams are compared line by line.  Independently the REAL outputs are judged against
Go's semantics: a naive Python reference of arrays + slices (capacity growth is read from the implementation, never
predicted), and — for strings — Go's own `+`, `<`, `==`, `s[i:j]`, `[]rune(s)`, `string(rs)`, `range`, `unicode/utf8`
evaluated inside the harness.  encoderune/decoderune are swept exhaustively (all runes, boundary byte strings).
Tie (B-E): the same kind of script through an llgo-compiled interpreter (harness/c05/e2e_main.go.txt) at -O0 and -O2,
judged against the same program built by the Go toolchain.
"""
import hashlib
import os
import re

from vlib.common import *
from vlib import native
from vlib import c05_grow as G

H = os.path.join(VERIF, "harness", "c05")
RT_FILES = ["z_slice.go", "z_string.go", "utf8.go", "errors.go", "z_error.go", "stubs.go", "type.go", "z_face.go",
            "z_type.go", "alg.go", "hash64.go", "map.go", "z_map.go", "mbarrier.go"]
ESIZES = [0, 1, 2, 3, 8, 24]
KEY_ZERO = "append:zero-size-element"
KEY_OVERLAP = "append:memcpy-overlap"


def pat(seed, t):
    return (seed * 37 + t * 11 + 5) % 251


def nsc_guess(new_len, old_cap):
    """heuristic copy of the growth rule — used ONLY to aim generated indices; never compared"""
    dbl = old_cap + old_cap
    if new_len > dbl:
        return new_len
    if old_cap < 256:
        return dbl
    c = old_cap
    while True:
        c += (c + 768) >> 2
        if c >= new_len:
            return c


# ------------------------------------------------------------------------------------------------ generators
def gen_slice_script(rng, esz=None, nops=None):
    """one script (list of lines, starts with `reset`); a shadow (len, cap) per register aims the indices"""
    if esz is None:
        esz = rng.choice(ESIZES)
    maxlen = 40 if esz <= 3 else (12 if esz == 8 else 6)
    lines = ["reset"]
    sh = {}   # reg -> [len, cap]

    def pick(live=True):
        if live and sh:
            return rng.choice(sorted(sh))
        return rng.randrange(8)

    def mk():
        r = rng.randrange(8)
        ln = rng.choice([0, 0, 1, 2, 3, rng.randint(0, maxlen)])
        cp = ln + rng.choice([0, 0, 0, 1, 2, rng.randint(0, maxlen)])
        lines.append("mk r%d %d %d %d %d" % (r, ln, cp, esz, rng.randrange(1000)))
        sh[r] = [ln, cp]

    mk()
    n = nops if nops is not None else rng.randint(6, 22)
    for _ in range(n):
        k = rng.random()
        if k < 0.14 or not sh:
            if rng.random() < 0.08:
                r = rng.randrange(8)
                lines.append("nil r%d %d" % (r, esz))
                sh[r] = [0, 0]
            elif rng.random() < 0.06:
                # must panic: negative or inverted sizes, or an impossible allocation
                bad = rng.choice([(-1, 2), (3, 2), (1, -1), (-1, -1), (0, 1 << 62), (1 << 62, 1 << 62), (2, 1 << 61)])
                if esz == 0 and bad[0] >= 0 and bad[1] >= bad[0]:
                    bad = (-1, 2)
                if esz == 1 and bad == (2, 1 << 61):   # 2^61 bytes: > maxAlloc, still fine to ask
                    pass
                lines.append("mk r%d %d %d %d 0" % (rng.randrange(8), bad[0], bad[1], esz))
            else:
                mk()
        elif k < 0.40:
            a, b, r = pick(), pick(), pick(False)
            lines.append("app r%d r%d r%d -" % (r, a, b))
            la, ca = sh[a]
            nl = la + sh[b][0]
            sh[r] = [nl, ca if nl <= ca else nsc_guess(nl, ca)]
        elif k < 0.55:
            a, r = pick(), pick(False)
            la, ca = sh[a]
            if rng.random() < 0.9:
                i = rng.randint(0, max(0, min(la, ca)))
                j = rng.randint(0, la)
            else:
                i, j = rng.randint(-1, ca + 1), rng.randint(-1, la + 1)
            lines.append("appself r%d r%d %d %d -" % (r, a, i, j))
            if 0 <= i <= ca and 0 <= j <= la:
                nl = i + la - j
                sh[r] = [nl, ca if nl <= ca else nsc_guess(nl, ca)]
        elif k < 0.65:
            a, b = pick(), pick()
            lines.append("cp r%d r%d" % (a, b))
        elif k < 0.72:
            a = pick()
            la = sh[a][0]
            i, j = rng.randint(0, la), rng.randint(0, la)
            if rng.random() < 0.08:
                i = rng.choice([-1, la + 1])
            lines.append("cpself r%d %d %d" % (a, i, j))
        elif k < 0.88:
            a, r = pick(), pick(False)
            la, ca = sh[a]
            if rng.random() < 0.85:
                kk = rng.choice([ca, ca, rng.randint(0, ca)])
                j = rng.choice([min(la, kk), rng.randint(0, kk)])
                i = rng.randint(0, j)
            else:
                i, j, kk = [rng.randint(-1, ca + 2) for _ in range(3)]
            lines.append("re r%d r%d %d %d %d" % (r, a, i, j, kk))
            if 0 <= i <= j <= kk <= ca:
                sh[r] = [j - i, kk - i]
        elif k < 0.92:
            lines.append("clr r%d" % pick())
        elif k < 0.97:
            a = pick()
            if sh[a][0] > 0:
                lines.append("set r%d %d %d" % (a, rng.randrange(sh[a][0]), rng.randrange(1000)))
        else:
            lines.append("dump")
    lines.append("dump")
    return lines


BYTE_PIECES = [b"a", b"b", b"z", b"A", b"\x00", b"\x7f", b" "] + [chr(c).encode("utf-8") for c in
               (0xE9, 0xDF, 0x20AC, 0x4E16, 0x1F600, 0x10000, 0x10FFFF, 0xFFFD, 0xD7FF, 0xE000, 0x80, 0x7FF, 0x800, 0xFFFF)] + [
               b"\x80", b"\xbf", b"\xc0", b"\xc1", b"\xc2", b"\xdf", b"\xe0", b"\xe2\x82", b"\xf0\x9f\x98", b"\xf0\x9f",
               b"\xc0\x80", b"\xe0\x80\x80", b"\xe0\x9f\xbf", b"\xf0\x80\x80\x80", b"\xf0\x8f\xbf\xbf", b"\xed\xa0\x80",
               b"\xed\xbf\xbf", b"\xf4\x90\x80\x80", b"\xf4\x8f\xbf\xbf", b"\xf5\x80\x80\x80", b"\xf8", b"\xfe", b"\xff"]
RUNE_EDGES = [-(1 << 31), -70000, -2, -1, 0, 1, 0x41, 0x7F, 0x80, 0x7FF, 0x800, 0xD7FF, 0xD800, 0xDBFF, 0xDC00, 0xDFFF,
              0xE000, 0xFFFD, 0xFFFE, 0xFFFF, 0x10000, 0x1F600, 0x10FFFF, 0x110000, 0x200000, (1 << 31) - 1]
INT_EDGES = RUNE_EDGES + [1 << 31, (1 << 32) - 1, 1 << 32, (1 << 32) + 65, (1 << 32) + 0x20AC, (1 << 63) - 1, -(1 << 63)]


ORDER_TAILS = [b"", b"\x00", b"\x01", b"a", b"b", b"ab", b"\x7f", b"\x80", b"\xff", b"\x00a", b"\x00b", b"z\x00y", b"\xc3\xa9"]
# operand pairs for < and == that separate byte-wise comparison of the whole Go string from C-string / signed-char
# shortcuts: equal through a NUL and different after it; differing only in bytes >= 0x80; proper prefixes (also by a NUL)
ORDER_PAIRS = [(b"a\x00b", b"a\x00c"), (b"a\x00c", b"a\x00b"), (b"\x00a", b"\x00b"), (b"\x00", b"\x00\x00"), (b"", b"\x00"),
               (b"a", b"a\x00"), (b"a\x00", b"a\x00\x00"), (b"ab\x00x", b"ab\x00y"), (b"ab\x00x", b"ab\x00xy"), (b"a\x00b\x00c", b"a\x00b\x00d"),
               (b"a\x00\x80", b"a\x00\x7f"), (b"\x00\xff", b"\x00\x01"), (b"x\x00", b"x\x00\x00a"), (b"a\x00b", b"a\x00b"),
               (b"\x7f", b"\x80"), (b"\x80", b"\xff"), (b"a\x7f", b"a\x80"), (b"a\xff", b"a\x01"), (b"\xc3\xa9", b"\xc3\xa8"), (b"\xc3\xa9", b"e"),
               (b"\xff", b"\x00"), (b"\x80a", b"\x80b"), (b"\xe4\xb8\x96", b"\xe4\xb8\x97"), (b"\xf0\x9f\x98\x80", b"\xef\xbf\xbd"),
               (b"", b"a"), (b"a", b"ab"), (b"ab", b"abc"), (b"abc", b"abd"), (b"abc", b"ab\xff"), (b"", b""), (b"abc", b"abc"),
               (b"a" * 40 + b"\x00" + b"b", b"a" * 40 + b"\x00" + b"c"), (b"a" * 40, b"a" * 41)]


def order_pair_lines():
    ls = []
    for a, b in ORDER_PAIRS:
        for x, y in ((a, b), (b, a)):
            ls.append("less %s %s" % (hexs(x), hexs(y)))
            ls.append("eq %s %s" % (hexs(x), hexs(y)))
    return ls


def rbytes(rng, maxpieces=6):
    n = rng.choice([0, 1, 1, 2, 3, maxpieces])
    out = b""
    for _ in range(rng.randint(0, n)):
        if rng.random() < 0.85:
            out += rng.choice(BYTE_PIECES)
        else:
            out += bytes([rng.randrange(256)])
    return out


def gen_string_line(rng):
    k = rng.randrange(14)
    if k == 0:
        return "cat %s %s" % (hexs(rbytes(rng)), hexs(rbytes(rng)))
    if k == 1:
        s = rbytes(rng)
        if rng.random() < 0.85:
            j = rng.randint(0, len(s))
            i = rng.randint(0, j)
        else:
            i, j = rng.randint(-1, len(s) + 1), rng.randint(-1, len(s) + 2)
        return "ssl %s %d %d" % (hexs(s), i, j)
    if k in (2, 3):
        a = rbytes(rng)
        r = rng.random()
        if r < 0.3:
            b = a
        elif r < 0.5:
            b = a + rbytes(rng, 2)
        elif r < 0.6:
            b = a[:rng.randint(0, len(a))]
        elif r < 0.7 and a:
            p = rng.randrange(len(a))
            b = a[:p] + bytes([(a[p] + rng.choice([1, 255, 128])) % 256]) + a[p + 1:]
        elif r < 0.85:
            # agree up to and including a NUL byte (or a byte >= 0x80), differ afterwards: C string functions stop at
            # the NUL, signed-char comparisons order the high bytes wrongly
            pre = rbytes(rng, 3) + rng.choice([b"\x00", b"\x00\x00", b"a\x00", b"\x80", b"\xff\x00"])
            x, y = rng.choice(ORDER_TAILS), rng.choice(ORDER_TAILS)
            a, b = pre + x, pre + y
        else:
            b = rbytes(rng)
        if rng.random() < 0.5:
            a, b = b, a
        return "%s %s %s" % ("less" if k == 2 else "eq", hexs(a), hexs(b))
    if k == 4:
        return "s2b " + hexs(rbytes(rng))
    if k == 5:
        return "b2s " + hexs(rbytes(rng))
    if k in (6, 7):
        return "s2r " + hexs(rbytes(rng, 8))
    if k == 8:
        n = rng.randint(0, 6)
        rs = [rng.choice(RUNE_EDGES) if rng.random() < 0.6 else rng.randint(-10, 0x110010) for _ in range(n)]
        return "r2s " + (",".join(str(x) for x in rs) if rs else "-")
    if k == 9:
        v = rng.choice(INT_EDGES) if rng.random() < 0.6 else rng.randint(-100, 0x110100)
        return "i2s %d" % v
    if k == 10:
        v = rng.choice([x for x in INT_EDGES if x >= 0] + [(1 << 64) - 1, 1 << 63]) if rng.random() < 0.6 else rng.randint(0, 0x110100)
        return "u2s %d" % v
    if k == 11:
        return "rune2s %d" % (rng.choice(RUNE_EDGES) if rng.random() < 0.5 else rng.randint(-100, 0x110100))
    if k == 12:
        return "iter " + hexs(rbytes(rng, 8))
    s = rbytes(rng)
    return "dec %s %d" % (hexs(s), rng.randint(0, len(s) + 1))


# ------------------------------------------------------------------------------------------------ Go reference (slices)
class RefPanic(Exception):
    pass


class GoRef:
    """Go's slice semantics, written naively: arrays (bytearrays) and (array, offset, len, cap) windows.
    The capacity of a grown slice is whatever the implementation reports (Go leaves it open)."""

    def __init__(self):
        self.reset()

    def reset(self):
        self.regs = {}
        self.arrays = []    # bytearray
        self.ids = {}       # id(array) -> presentation id, in order of first description

    def new_array(self, nbytes):
        a = bytearray(nbytes)
        self.arrays.append(a)
        return a

    def window(self, s, upto_cap=False):
        n = (s["cap"] if upto_cap else s["len"]) * s["esz"]
        return bytes(s["arr"][s["off"]:s["off"] + n]) if s["arr"] is not None else b""

    def mk(self, r, ln, cp, esz, seed):
        if ln < 0 or cp < 0 or ln > cp or cp * esz > (1 << 48):
            raise RefPanic()
        arr = self.new_array(cp * esz)
        for t in range(ln * esz):
            arr[t] = pat(seed, t)
        self.regs[r] = dict(arr=arr, off=0, len=ln, cap=cp, esz=esz)
        return self.regs[r]

    def nil(self, r, esz):
        self.regs[r] = dict(arr=None, off=0, len=0, cap=0, esz=esz)
        return self.regs[r]

    def append(self, r, a, vals, n, realcap):
        esz = a["esz"]
        nl = a["len"] + n
        if nl <= a["cap"]:
            if a["arr"] is not None:
                a["arr"][a["off"] + a["len"] * esz: a["off"] + nl * esz] = vals
            res = dict(arr=a["arr"], off=a["off"], len=nl, cap=a["cap"], esz=esz)
            shared = True
        else:
            cp = realcap if realcap is not None and realcap >= nl else nl
            arr = self.new_array(cp * esz)
            old = self.window(a)
            arr[0:len(old)] = old
            arr[len(old):len(old) + len(vals)] = vals
            res = dict(arr=arr, off=0, len=nl, cap=cp, esz=esz)
            shared = False
        self.regs[r] = res
        return res, shared

    def reslice(self, a, i, j, k):
        if not (0 <= i <= j <= k <= a["cap"]):
            raise RefPanic()
        return dict(arr=a["arr"], off=a["off"] + i * a["esz"], len=j - i, cap=k - i, esz=a["esz"])

    def copy(self, dst, src):
        n = min(dst["len"], src["len"])
        vals = self.window(src)[:n * dst["esz"]]
        if n > 0 and dst["arr"] is not None:
            dst["arr"][dst["off"]:dst["off"] + len(vals)] = vals
        return n

    def clear(self, a):
        if a["arr"] is not None:
            n = a["len"] * a["esz"]
            a["arr"][a["off"]:a["off"] + n] = bytes(n)

    def al(self, s):
        if s["cap"] <= 0 or s["arr"] is None:
            return "-"
        k = id(s["arr"])
        if k not in self.ids:
            self.ids[k] = len(self.ids)
        return "%d+%d" % (self.ids[k], s["off"])


def parse_desc(txt):
    """'len=.. cap=.. al=.. nil=.. d=.. t=..' -> dict"""
    d = {}
    for f in txt.split():
        if "=" in f:
            k, v = f.split("=", 1)
            d[k] = v
    return d


def judge_slice(ref, line, out):
    """Judge one REAL output line against Go's semantics.  Returns (verdict, detail):
    verdict None = fine, else a short class name of the failure."""
    f = line.split()
    op = f[0]
    ri = lambda s: int(s[1:])
    o = parse_desc(out) if out.startswith("ok") else None

    def check_desc(o, s, what, cap_exact=True, tail=True, al=True):
        if int(o["len"]) != s["len"]:
            return "%s:len" % what, "len %s, Go: %d" % (o["len"], s["len"])
        if int(o["cap"]) < int(o["len"]):
            return "%s:cap<len" % what, "cap %s < len %s" % (o["cap"], o["len"])
        if cap_exact and int(o["cap"]) != s["cap"]:
            return "%s:cap" % what, "cap %s, Go: %d" % (o["cap"], s["cap"])
        if unhexs(o["d"]) != ref.window(s):
            return "%s:contents" % what, "elements %s, Go: %s" % (o["d"], hexs(ref.window(s)))
        if s["len"] > 0 and o["nil"] == "1":
            return "%s:nil" % what, "non-empty result is nil"
        if tail and cap_exact:
            full = ref.window(s, upto_cap=True)
            if unhexs(o["t"]) != full[s["len"] * s["esz"]:]:
                return "%s:tail" % what, "storage beyond len %s, Go: %s" % (o["t"], hexs(full[s["len"] * s["esz"]:]))
        if al and s["esz"] > 0 and s["cap"] > 0:
            if o["al"] != ref.al(s):
                return "%s:aliasing" % what, "window %s, Go: %s" % (o["al"], ref.al(s))
        return None, None

    try:
        if op == "reset":
            ref.reset()
            return None, None
        if op == "mk":
            try:
                s = ref.mk(ri(f[1]), int(f[2]), int(f[3]), int(f[4]), int(f[5]))
            except RefPanic:
                return (None, None) if out == "panic" else ("make:no-panic", "make with len=%s cap=%s must panic" % (f[2], f[3]))
            if o is None:
                return "make:panic", "unexpected " + out
            return check_desc(o, s, "make")
        if op == "nil":
            ref.nil(ri(f[1]), int(f[2]))
            return None, None
        if op == "set":
            a = ref.regs[ri(f[1])]
            idx, seed = int(f[2]), int(f[3])
            for t in range(a["esz"]):
                a["arr"][a["off"] + idx * a["esz"] + t] = pat(seed, t)
            return None, None
        if op in ("app", "appself"):
            if op == "app":
                a, b = ref.regs[ri(f[2])], ref.regs[ri(f[3])]
                src, n = a, b["len"]
                vals = ref.window(b)
            else:
                a = ref.regs[ri(f[2])]
                i, j = int(f[3]), int(f[4])
                try:
                    src = ref.reslice(a, 0, i, a["cap"])
                    y = ref.reslice(a, j, a["len"], a["cap"])
                except RefPanic:
                    return (None, None) if out == "panic" else ("slice:no-panic", "slice bounds must panic")
                n, vals = y["len"], ref.window(y)
            if o is None:
                return "append:panic", "unexpected " + out
            realcap = int(o["cap"])
            esz = src["esz"]
            res, shared = ref.append(ri(f[1]), src, vals, n, realcap)
            if o.get("ub") == "1":
                # the values are right (the stand-in copies like memmove) but C's memcpy was handed overlapping ranges
                check = check_desc(o, res, "append", cap_exact=shared, tail=shared)
                return "append:memcpy-overlap", "memcpy called on overlapping ranges (undefined behaviour in C); values %s" % ("correct under the stand-in" if check[0] is None else "also wrong: %s" % check[1])
            if int(o["len"]) != res["len"] and esz == 0:
                return "append:zero-size", "len %s after appending %d zero-size elements to len %d (Go: %d)" % (o["len"], n, src["len"], res["len"])
            v = check_desc(o, res, "append", cap_exact=shared, tail=True if shared else False)
            if v[0]:
                return v
            if not shared and any(unhexs(o["t"])):
                return "append:tail", "fresh storage beyond len is not zero: " + o["t"]
            if esz > 0 and (o["sh"] == "1") != shared:
                return "append:sharing", "shares storage: %s, Go: %s (len %d + %d vs cap %d)" % (o["sh"], int(shared), src["len"], n, src["cap"])
            return None, None
        if op in ("cp", "cpself"):
            if op == "cp":
                a, b = ref.regs[ri(f[1])], ref.regs[ri(f[2])]
                dst, src = a, b
            else:
                a = ref.regs[ri(f[1])]
                i, j = int(f[2]), int(f[3])
                try:
                    dst = ref.reslice(a, i, a["len"], a["cap"])
                    src = ref.reslice(a, j, a["len"], a["cap"])
                except RefPanic:
                    return (None, None) if out == "panic" else ("slice:no-panic", "slice bounds must panic")
            if o is None:
                return "copy:panic", "unexpected " + out
            n = ref.copy(dst, src)
            if int(o["n"]) != n:
                return "copy:count", "copied %s, Go: %d" % (o["n"], n)
            return check_desc(o, a, "copy")
        if op == "re":
            a = ref.regs[ri(f[2])]
            try:
                s = ref.reslice(a, int(f[3]), int(f[4]), int(f[5]))
            except RefPanic:
                return (None, None) if out == "panic" else ("slice:no-panic", "a[%s:%s:%s] with cap %d must panic" % (f[3], f[4], f[5], a["cap"]))
            if o is None:
                return "slice:panic", "a[%s:%s:%s] with cap %d must not panic" % (f[3], f[4], f[5], a["cap"])
            ref.regs[ri(f[1])] = s
            return check_desc(o, s, "slice")
        if op == "clr":
            a = ref.regs[ri(f[1])]
            ref.clear(a)
            return check_desc(o, a, "clear")
        if op == "dump":
            # "ok r0[...] r1[...]"
            body = out[2:].strip()
            seen = {}
            while body:
                name, rest = body.split("[", 1)
                txt, body = rest.split("]", 1)
                seen[int(name.strip()[1:])] = parse_desc(txt)
                body = body.strip()
            if sorted(seen) != sorted(ref.regs):
                return "dump:registers", "registers %s vs %s" % (sorted(seen), sorted(ref.regs))
            for r in sorted(seen):
                v = check_desc(seen[r], ref.regs[r], "state")
                if v[0]:
                    return v[0], "r%d: %s" % (r, v[1])
            return None, None
    except KeyError:
        return "desync", "reference has no such register (earlier divergence)"
    return None, None


def split_ref(out):
    if " ref=" in out:
        a, b = out.split(" ref=", 1)
        return a, b
    return out, None


def strip_ub(s):
    return s.replace(" ub=0", "").replace(" ub=1", "")


# ------------------------------------------------------------------------------------------------ the check
def sweep_lines(tier):
    ls = []
    step = 65536
    ranges = [(-(1 << 31), -(1 << 31) + 4096), (-70000, 0), (0, 0x110000), (0x110000, 0x110000 + 70000), ((1 << 31) - 4096, 1 << 31)]
    for op in ("encrange", "rtrange"):
        for lo, hi in ranges:
            x = lo
            while x < hi:
                ls.append("%s %d %d" % (op, x, min(hi, x + step)))
                x += step
    for mode, lo, hi in [(1, 0, 256), (2, 0, 256), (3, 0, 256), (4, 0, 256), (5, 0xE0, 0xF8)]:
        for b in range(lo, hi, 16):
            ls.append("decgrid %d %d %d" % (mode, b, min(hi, b + 16)))
    return ls


def sweep_count(line):
    f = line.split()
    if f[0] in ("encrange", "rtrange"):
        return int(f[2]) - int(f[1])
    per = {1: 1, 2: 256, 3: 256 * 16, 4: 4096, 5: 64 * 64 * 3}[int(f[1])]
    return (int(f[3]) - int(f[2])) * per * 2


def run(ctx, args):
    quick = ctx.tier == "quick"
    rng = ctx.rng
    st = lean_check(ctx, ["LlgoVerif.Props.C05"], ["LlgoVerif/Props/C05.lean"],
                    extra_files=["LlgoVerif/Model/Slice.lean", "LlgoVerif/Spec/Slice.lean", "LlgoVerif/Lemmas/Slice.lean",
                                 "LlgoVerif/Model/Utf8.lean", "LlgoVerif/Model/Slice64.lean", "LlgoVerif/Model/StrHeap.lean",
                                 "LlgoVerif/Lemmas/Slice64.lean", "LlgoVerif/Lemmas/StrHeap.lean", "Driver/C05.lean"],
                    leanchecker=not quick)
    modeld = build_driver(ctx, "modeld_c05")
    harness = native.make_native(ctx, RT_FILES,
                                 {"zz_support.go": G.rt_support(), "zz_access.go": open(os.path.join(H, "rt_access.go.txt")).read()},
                                 {"main.go": open(os.path.join(H, "main.go.txt")).read()})
    ctx.log("built: Lean modules, modeld_c05, native copy of the runtime")

    # ---- which of the two repairs does the working tree contain?  (probed on the real code; these two scripts are also
    #      the replay of the Lean counterexamples append_spec_zero_size_counterexample / append_spec_overlap_counterexample)
    witness_zero = ["reset", "nil r0 0", "mk r1 1 1 0 0", "app r2 r0 r1 -"]
    witness_ovl = ["reset", "mk r0 4 4 1 7", "appself r1 r0 1 2 -"]
    pr, _, _ = run_lines([harness], witness_zero + witness_ovl)
    zfix = pr[3].startswith("ok len=1 ")
    mfix = " ub=0" in pr[6]
    ctx.log("working tree: zero-size append %s; append copies with %s" % ("bumps len (repaired)" if zfix else "returns src unchanged (defect #4)",
                                                                       "memmove (repaired)" if mfix else "memcpy, overlap flagged (defect #5)"))
    cfg_line = "cfg %d %d" % (int(zfix), int(mfix))

    # ---- inputs: corpus, then generated scripts
    scripts = []
    cdir = os.path.join(VERIF, "corpus", "C05")
    if os.path.isdir(cdir):
        for fn in sorted(os.listdir(cdir)):
            if fn.endswith(".txt"):
                ls = [l.strip() for l in open(os.path.join(cdir, fn)) if l.strip() and not l.startswith("#")]
                scripts.append((fn, ls))
    scripts.append(("witness-zero-size", witness_zero))
    scripts.append(("witness-overlap", witness_ovl))
    n_slice_lines = 24000 if quick else 800000
    n_string_lines = 8000 if quick else 200000
    total = 0
    i = 0
    while total < n_slice_lines:
        s = gen_slice_script(rng, esz=ESIZES[i % len(ESIZES)] if i % 3 else None)
        scripts.append(("gen-%d" % i, s))
        total += len(s)
        i += 1
    string_lines = order_pair_lines() + [gen_string_line(rng) for _ in range(n_string_lines)]
    nsc_lines = []
    for nl, oc in [(0, 0), (1, 0), (5, 2), (5, 4), (255, 128), (256, 255), (257, 256), (300, 256), (512, 256), (513, 256),
                   (1000, 999), (100000, 99999), (1 << 30, (1 << 30) - 1), ((1 << 40) + 7, 1 << 40), ((1 << 60) + 5, 1 << 60)]:
        nsc_lines.append("nsc %d %d" % (nl, oc))
    for _ in range(500 if quick else 20000):
        oc = rng.choice([rng.randint(0, 600), rng.randint(0, 1 << 20), rng.randint(0, 1 << 40)])
        nl = oc + rng.choice([1, 1, 2, rng.randint(1, 2 * oc + 2), rng.randint(1, 3 * oc + 3)])
        nsc_lines.append("nsc %d %d" % (nl, oc))

    res = process(ctx, harness, modeld, cfg_line, scripts, string_lines, nsc_lines, zfix, mfix)
    mismatches, spec_fail, stats, nontrivial, samples, evals = res

    # ---- machine-integer layer (Model/Slice64.lean) and heap-aware strings / C strings (Model/StrHeap.lean)
    g_mism, g_fail, g_stats, g_nontrivial, g_samples, g_evals, lc = process_grow(ctx, harness, modeld, rng, quick)
    mismatches += g_mism
    spec_fail += g_fail
    stats.update(g_stats)
    nontrivial |= g_nontrivial
    samples += g_samples
    evals += g_evals

    # ---- exhaustive sweeps of encoderune / decoderune
    sw = sweep_lines(ctx.tier)
    rs, _, e1 = run_lines([harness], sw)
    ms, _, e2 = run_lines([modeld], sw)
    if len(rs) != len(sw) or len(ms) != len(sw):
        raise RuntimeError("sweep died: real %d model %d of %d\n%s\n%s" % (len(rs), len(ms), len(sw), e1[-1500:], e2[-1500:]))
    sweep_evals = 0
    sweep_reported = set()
    for line, r, m in zip(sw, rs, ms):
        sweep_evals += sweep_count(line)
        rr, rf = split_ref(r)
        stats[line.split()[0]] = stats.get(line.split()[0], 0) + 1
        if rf is not None and not rf.startswith("0:"):
            cnt, first = rf.split(":", 1)
            spec_fail += 1
            if line.split()[0] not in sweep_reported:
                sweep_reported.add(line.split()[0])
                what = {"encrange": "encoderune(r) differs from Go's utf8.AppendRune", "rtrange": "string(rune) then range step differs from Go",
                        "decgrid": "decoderune differs from Go's utf8.DecodeRuneInString"}[line.split()[0]]
                ctx.report("utf8:%s:first=%s" % (line.split()[0], first), "%s, first at %s (%s cases in `%s`)" % (what, first, cnt, line),
                           {"line": line, "real": r, "first_failing": first})
        if rr != m:
            detail = localise_sweep(harness, modeld, line) if len([x for x in mismatches if x[0] == "sweep"]) < 3 else None
            mismatches.append(("sweep", line, rr, m, detail))
    evals += sweep_evals
    stats["sweep_evaluations"] = sweep_evals

    # ---- verdict
    if mismatches:
        ctx.log("correspondence mismatches: %d, first: %s" % (len(mismatches), str(mismatches[0])[:600]))
        ctx.broken.append("correspondence real vs Lean model (%d lines differ), e.g. %s" % (len(mismatches), str(mismatches[0][1])[:200]))
        if not ctx.violations:
            # look harder for an input on which the property itself fails (4 more seeds of the generated stream)
            for extra in range(4):
                r2 = random.Random(ctx.seed * 7919 + extra + 1)
                sc = [("xgen-%d-%d" % (extra, k), gen_slice_script(r2)) for k in range(600 if quick else 6000)]
                sl = [gen_string_line(r2) for _ in range(3000 if quick else 30000)]
                process(ctx, harness, modeld, cfg_line, sc, sl, [], zfix, mfix, compare_model=False)
                if ctx.violations:
                    break
        if not ctx.violations:
            ctx.report_broken("correspondence C05 real-vs-model", {"first": [str(x)[:800] for x in mismatches[:5]]})
    for name, s in st.items():
        if s != "ok":
            ctx.log("theorem", name, s)
    if any(s != "ok" for s in st.values()) and not ctx.violations:
        ctx.report_broken("Props/C05: " + ", ".join(n for n, s in st.items() if s != "ok"), st)

    # ---- end-to-end route (compiler lowering): llgo-compiled interpreter vs the same program under the Go toolchain
    e2e_cov = {}
    if os.environ.get("VERIF_C05_NO_E2E") != "1":
        try:
            from vlib import c05_e2e
            e2e_cov = c05_e2e.run_e2e(ctx, rng, quick)
        except HarnessBuildError:
            raise
        except Exception as e:   # the e2e toolchain is fragile in the sandbox: report, do not hide
            ctx.log("e2e route failed to run: %r" % (e,))
            ctx.broken.append("e2e route did not run: %r" % (e,))
            ctx.report_broken("C05 e2e route did not run", repr(e))
    evals += e2e_cov.get("e2e_lines", 0) * e2e_cov.get("e2e_builds", 0)

    ctx.coverage["samples"] = samples
    ctx.coverage["trusted_base"] += [
        "hand-written Lean model of z_slice.go / z_string.go / utf8.go tied by a differential run (native copy of the working tree's "
        "runtime vs compiled Lean model) on %d generated script lines + exhaustive encoderune/decoderune sweeps" % evals,
        "Go reference semantics: Python arrays+slices (checks/c05.py GoRef; capacity growth read from the implementation) and Go's own string "
        "operations / unicode/utf8 evaluated inside the harness by the Go toolchain",
        "clite stand-in: Memcpy copies like memmove and counts overlapping calls (what glibc happens to do); the model calls such a call UB",
        "integer model: Model/Slice.lean uses mathematical integers; Model/Slice64.lean renders nextslicecap / GrowSlice / SliceAppend on int64+uintptr "
        "and is proved equal to it for new lengths <= 2^62 (growSlice64_eq_model, sliceAppend64_eq_model); MakeSlice's guards are proved exact on all "
        "of int64 (makeSlice_exact); the int64 functions are run against the real ones on boundary + random int64 operands (nsc64 mk64 grow64 app64)",
        "allocator stand-in of the native harness records requested sizes and does not execute requests above 2^26 bytes (answer `accept alloc=N`): "
        "GrowSlice has no maxAlloc guard, so what a process does with a request it cannot satisfy is not observed",
        "heap-aware string layer (Model/StrHeap.lean): one fresh heap per operation in the correspondence; aliasing is observed as pointer-in-range tests",
    ]
    ctx.assumptions += ["byte sizes of existing capacity windows and of appended values are at most 2^60 (GrowLegit) in the int64 theorems",
                        "element size is a non-negative compile-time constant (SizeOf)",
                        "address 0 is never allocated (cstr_roundtrip: 0 < Mem.next)"]
    cov = {"evaluations": evals, "distinct_nontrivial": len(nontrivial),
           "rule": "one protocol line (or one swept rune / byte string) per evaluation; non-trivial = slice op on a live register or string op with a non-empty operand; distinct by (script prefix hash, line) for slices and by line text for strings",
           "input_distribution": stats, "spec_failures_on_real_code": spec_fail,
           "correspondence_mismatches": len(mismatches),
           "tree_configuration": {"zero_size_append_repaired": zfix, "append_uses_memmove": mfix, "growslice_tests_wrapped_length": lc}}
    cov.update(e2e_cov)
    return ctx.finish("proof", cov)


def process(ctx, harness, modeld, cfg_line, scripts, string_lines, nsc_lines, zfix, mfix, compare_model=True, run_real=None, label=""):
    """run scripts + string lines through real code (pass 1) and the model (pass 2, with the real capacities as hints);
    compare; judge the real outputs against Go's semantics."""
    flat = []      # (script name, index in script, line)
    for name, ls in scripts:
        for k, l in enumerate(ls):
            flat.append((name, k, l))
    lines_real = [l for _, _, l in flat] + ["reset"] + string_lines + nsc_lines
    if run_real is not None:
        real = run_real(lines_real)
    else:
        real, rc, err = run_lines([harness], lines_real)
        if len(real) != len(lines_real):
            # the real code crashed the interpreter (memory corruption, fatal error): the first unanswered line is the culprit
            at = len(real)
            culprit = lines_real[min(at, len(lines_real) - 1)]
            ctxt = script_upto(scripts, flat[at][0], flat[at][1]) if at < len(flat) else [culprit]
            ctx.report("crash:" + " ; ".join(ctxt[-12:]), "the runtime functions crashed the native interpreter (rc=%s) while executing `%s`" % (rc, culprit),
                       {"script": ctxt, "failing_line": culprit, "stderr_tail": err[-1500:]})
            return [], 1, {"crash": 1}, set(), [], at
    # pass 2: capacity hints
    lines_model = [cfg_line]
    for (name, k, l), out in zip(flat, real):
        f = l.split()
        if f[0] in ("app", "appself") and out.startswith("ok"):
            f[-1] = parse_desc(out)["cap"]
            lines_model.append(" ".join(f))
        else:
            lines_model.append(l)
    lines_model += ["reset"] + string_lines + nsc_lines
    model = None
    if compare_model:
        model, rc2, err2 = run_lines([modeld], lines_model)
        if len(model) != len(lines_model):
            raise RuntimeError("modeld_c05 died after %d of %d lines: %s" % (len(model), len(lines_model), err2[-2000:]))
        model = model[1:]
    stats, nontrivial, mismatches, samples = {}, set(), [], []
    spec_fail = 0
    ref = GoRef()
    desync = False
    cur, prefix = None, None
    growth_mismatch = 0
    slice_fails, string_fails = {}, {}
    for idx, ((name, k, l), out) in enumerate(zip(flat, real)):
        op = l.split()[0]
        stats[op] = stats.get(op, 0) + 1
        if name != cur or op == "reset":
            cur, desync, prefix = name, False, hashlib.sha1()
        prefix.update(l.encode())
        if op not in ("reset", "dump", "nil") and "panic" not in out and out != "bad-op":
            nontrivial.add(prefix.hexdigest()[:16])
        if out == "panic":
            stats["panics"] = stats.get("panics", 0) + 1
        if " sh=0" in out:
            stats["append-grew"] = stats.get("append-grew", 0) + 1
        if " sh=1" in out:
            stats["append-in-place"] = stats.get("append-in-place", 0) + 1
        if " ub=1" in out:
            stats["memcpy-overlap-calls"] = stats.get("memcpy-overlap-calls", 0) + 1
        if model is not None and (out != model[idx] if not label else strip_ub(out) != strip_ub(model[idx])):
            mismatches.append((label + name, l, out, model[idx], script_upto(scripts, name, k)))
        if out == "bad-op":
            stats["bad-op"] = stats.get("bad-op", 0) + 1
            continue
        if desync:
            stats["unjudged-after-divergence"] = stats.get("unjudged-after-divergence", 0) + 1
            continue
        verdict, detail = judge_slice(ref, l, out)
        if verdict:
            spec_fail += 1
            desync = True
            if verdict == "append:zero-size":
                ctx.report(KEY_ZERO, "%s — %s" % (l, detail), {"script": script_upto(scripts, name, k), "failing_line": l, "real": out, "go_semantics": detail})
            elif verdict == "append:memcpy-overlap":
                desync = False      # values are right: the reference stays in step
                ctx.report(KEY_OVERLAP, "%s — %s" % (l, detail), {"script": script_upto(scripts, name, k), "failing_line": l, "real": out, "go_semantics": detail})
            else:
                slice_fails.setdefault(verdict, []).append((script_upto(scripts, name, k), l, out, detail))
        if len(samples) < 3 and op in ("app", "appself", "re") and out.startswith("ok") and k > 3 and len(out) < 160 and " d=-" not in out and any(ch in "123456789abcdef" for ch in parse_desc(out).get("d", "")):
            samples.append({"line": l, "real": out, "model": model[idx] if model is not None else None})
    for verdict in sorted(slice_fails):
        lst = sorted(slice_fails[verdict], key=lambda x: (len(x[0]), len(" ".join(x[0]))))
        script, l, out, detail = lst[0]
        if harness is not None:
            script, l, out, detail = shrink_script(harness, script, verdict, (l, out, detail))
        ctx.report(label + "slice:%s:%s" % (verdict, " ; ".join(script)), "%s — %s (%d failing scripts of this class; shortest, minimised)" % (l, detail, len(lst)),
                   {"script": script, "failing_line": l, "real": out, "go_semantics": detail, "class": verdict, "failing_scripts_of_this_class": len(lst)})
    base = len(flat) + 1
    for j, l in enumerate(string_lines + nsc_lines):
        out = real[base + j]
        op = l.split()[0]
        stats[op] = stats.get(op, 0) + 1
        rr, rf = split_ref(out)
        if len(l) > 12:
            nontrivial.add(l)
        if op == "nsc":
            # growth policy: Go fixes only `result >= newLen`; a differing policy is noted, not a violation
            nl = int(l.split()[1])
            if not rr.startswith("ok") or int(rr.split()[1]) < nl:
                spec_fail += 1
                ctx.report("nextslicecap:" + l, "nextslicecap returns less than the requested length: %s -> %s" % (l, rr), {"line": l, "real": rr})
            elif model is not None and rr != model[base + j]:
                growth_mismatch += 1
            continue
        if model is not None and strip_ub(rr) != strip_ub(model[base + j]):
            mismatches.append(("string", l, rr, model[base + j], None))
        if " ub=1" in rr:
            spec_fail += 1
            ctx.report("string:memcpy-overlap:" + l, "memcpy on overlapping ranges in a string operation: " + l, {"line": l, "real": out})
        if rf is not None:
            got = strip_ub(rr)
            got = got[3:] if got.startswith("ok ") else got
            if got != rf:
                spec_fail += 1
                string_fails.setdefault(op, []).append((l, rr, got, rf))
        if len(samples) < 6 and op in ("s2r", "iter", "r2s") and len(l) > 30:
            samples.append({"line": l, "real": out, "model": model[base + j] if model is not None else None})
    for op in sorted(string_fails):
        lst = sorted(string_fails[op], key=lambda x: len(x[0]))
        l, rr, got, rf = lst[0]
        ctx.report(label + "string:%s:%s" % (op, l), "%s gives %s, Go: %s (%d failing lines of this operation; shortest)" % (l, got, rf, len(lst)),
                   {"line": l, "operands_hex": l.split()[1:], "real": rr, "go": rf, "failing_lines_of_this_operation": len(lst),
                    "other_failing_lines": [x[0] for x in lst[1:12]]})
    if growth_mismatch:
        ctx.log("note: the working tree's nextslicecap differs from the model's on %d inputs (Go does not fix the growth policy; "
                "nextslicecap_ge is then a theorem about the model only — result >= newLen was checked on every sampled input)" % growth_mismatch)
        ctx.coverage["nextslicecap_tied"] = False
    else:
        ctx.coverage.setdefault("nextslicecap_tied", True)
    return mismatches, spec_fail, stats, nontrivial, samples, len(lines_real)


def process_grow(ctx, harness, modeld, rng, quick, compare_model=True):
    """the machine-integer lines (nsc64 mk64 grow64 app64) and the heap-aware string / C-string lines: real code, model,
    independent judgement (vlib/c05_grow.py)."""
    # which GrowSlice does the tree have?  (this line is also the replay of growSlice64_len_overflow_counterexample)
    pr, _, _ = run_lines([harness], [G.WITNESS_LENOVF])
    lc = bool(pr) and pr[0] == "panic"
    ctx.log("working tree: GrowSlice %s" % ("panics when len+num is not an int (repaired)" if lc else "does not test the wrapped new length (finding 4): `%s` -> %s" % (G.WITNESS_LENOVF, pr[0] if pr else "?")))
    int_lines = G.gen_nsc64(rng, 400 if quick else 20000) + G.gen_mk64(rng, 300 if quick else 20000) + G.gen_grow64(rng, 1500 if quick else 60000)
    heap_lines = G.FIXED_HEAP_LINES + [G.gen_heap_line(rng, rbytes) for _ in range(3000 if quick else 100000)]
    lines = int_lines + heap_lines
    real, rc, err = run_lines([harness], lines)
    if len(real) != len(lines):
        culprit = lines[min(len(real), len(lines) - 1)]
        ctx.report("crash:" + culprit, "the runtime functions crashed the native interpreter (rc=%s) while executing `%s`" % (rc, culprit),
                   {"failing_line": culprit, "stderr_tail": err[-1500:]})
        return [], 1, {"crash": 1}, set(), [], len(real), lc
    model = None
    if compare_model:
        model, _, err2 = run_lines([modeld], ["cfg64 %d" % int(lc)] + lines)
        if len(model) != len(lines) + 1:
            raise RuntimeError("modeld_c05 died after %d of %d lines: %s" % (len(model), len(lines) + 1, err2[-2000:]))
        model = model[1:]
    stats, nontrivial, mismatches, samples = {}, set(), [], []
    fails = {}
    growth_mismatch = 0
    strip_policy = lambda t: re.sub(r" (cap|alloc)=\d+", "", t)
    for idx, (l, out) in enumerate(zip(lines, real)):
        op = l.split()[0]
        stats[op] = stats.get(op, 0) + 1
        for tag in ("panic", "accept"):
            if out.startswith(tag):
                stats[op + ":" + tag] = stats.get(op + ":" + tag, 0) + 1
        if " sh=0" in out:
            stats[op + ":grew"] = stats.get(op + ":grew", 0) + 1
        nontrivial.add(l)
        verdict, detail = (G.judge_int if idx < len(int_lines) else G.judge_heap)(l, out)
        if verdict == "harness":
            raise RuntimeError("generator/harness disagreement (not a finding): " + detail)
        if verdict:
            fails.setdefault(verdict, []).append((l, out, detail))
        if model is not None and out != model[idx]:
            grown = lambda t: t.startswith("accept") or " sh=0" in t
            mo = model[idx]
            if op == "nsc64" or (op in ("grow64", "app64") and grown(out) and grown(mo) and
                                 (out.startswith("accept") or mo.startswith("accept") or strip_policy(out) == strip_policy(mo))):
                growth_mismatch += 1     # Go does not fix the growth policy: noted, judged above against `cap >= len`
            else:
                mismatches.append(("grow", l, out, mo, None))
        if len(samples) < 4 and op in ("cstr", "app64", "hs2b", "mk64") and len(l) > 24 and out.startswith("ok"):
            samples.append({"line": l, "real": out, "model": model[idx] if model is not None else None})
    spec_fail = sum(len(v) for v in fails.values())
    for verdict in sorted(fails):
        lst = sorted(fails[verdict], key=lambda x: (len(x[0]), x[0]))
        l, out, detail = lst[0]
        if verdict == "len-overflow":
            if any(x[0] == G.WITNESS_LENOVF for x in lst):
                l, out, detail = [x for x in lst if x[0] == G.WITNESS_LENOVF][0]
            ctx.report(G.KEY_LENOVF, "%s — %s" % (l, detail), {"line": l, "real": out, "go_semantics": detail, "failing_lines_of_this_class": len(lst),
                                                              "other_failing_lines": [x[0] for x in lst[1:8]],
                                                              "lean": "growSlice64_len_overflow_counterexample"})
        else:
            ctx.report("%s:%s" % (verdict, l), "%s — %s (%d failing lines of this class; shortest)" % (l, detail, len(lst)),
                       {"line": l, "real": out, "go_semantics": detail, "class": verdict, "failing_lines_of_this_class": len(lst),
                        "other_failing_lines": [x[0] for x in lst[1:8]]})
    if growth_mismatch:
        ctx.log("note: the working tree's growth policy differs from the model's nextslicecap64 on %d int64 inputs (not fixed by Go; "
                "`cap >= len`, representability and the allocated size were judged on every line)" % growth_mismatch)
        ctx.coverage["nextslicecap64_tied"] = False
    else:
        ctx.coverage.setdefault("nextslicecap64_tied", True)
    stats["grow_spec_failures"] = spec_fail
    return mismatches, spec_fail, stats, nontrivial, samples, len(lines), lc


def judge_script(harness, script):
    """run one script on the real code and judge it: -> (index, verdict, line, out, detail) of the first failure or None"""
    real, _, _ = run_lines([harness], script)
    if len(real) != len(script):
        return None
    ref = GoRef()
    for k, (l, out) in enumerate(zip(script, real)):
        if out == "bad-op":
            continue
        v, d = judge_slice(ref, l, out)
        if v:
            return (k, v, l, out, d)
    return None


def shrink_script(harness, script, verdict, last):
    """greedy line removal keeping a failure of the same class (always keeps `reset` and the failing line)"""
    best, info = list(script), last
    changed = True
    rounds = 0
    while changed and rounds < 4:
        changed = False
        rounds += 1
        for i in range(len(best) - 2, 0, -1):
            cand = best[:i] + best[i + 1:]
            r = judge_script(harness, cand)
            if r is not None and r[1] == verdict:
                best = cand[:r[0] + 1]
                info = (r[2], r[3], r[4])
                changed = True
                break
    return best, info[0], info[1], info[2]


def script_upto(scripts, name, k):
    for n, ls in scripts:
        if n == name:
            return ls[:k + 1]
    return []


def localise_sweep(harness, modeld, line):
    """a digest differs: find the first rune / byte string on which real code and model disagree"""
    f = line.split()
    if f[0] in ("encrange", "rtrange"):
        lo, hi = int(f[1]), int(f[2])
        op = "enc" if f[0] == "encrange" else "rune2s"
        ls = ["%s %d" % (op, v) for v in range(lo, hi)]
    else:
        mode, lo, hi = int(f[1]), int(f[2]), int(f[3])
        grid = [0x00, 0x01, 0x7F, 0x80, 0x81, 0x8F, 0x90, 0x9F, 0xA0, 0xAF, 0xB0, 0xBF, 0xC0, 0xC1, 0xF4, 0xFF]
        ls = []
        for b0 in range(lo, hi):
            if mode == 1:
                tails = [()]
            elif mode == 2:
                tails = [(b1,) for b1 in range(256)]
            elif mode == 3:
                tails = [(b1, b2) for b1 in range(256) for b2 in grid]
            elif mode == 4:
                tails = [(b1, b2, b3) for b1 in grid for b2 in grid for b3 in grid]
            else:
                tails = [t for b1 in range(0x80, 0xC0) for b2 in range(0x80, 0xC0) for t in ((b1, b2, 0x80), (b1, b2, 0xBF), (b1, b2))]
            ls += ["dec %s 0" % bytes((b0,) + t).hex() for t in tails]
    r, _, _ = run_lines([harness], ls)
    m, _, _ = run_lines([modeld], ls)
    for l, a, b in zip(ls, r, m):
        if split_ref(a)[0] != b:
            return {"line": l, "real": a, "model": b}
    return None
