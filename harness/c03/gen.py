"""Generator of the C03 panic-point program: each case is a function that prints a trace line, performs ONE operation
that Go requires to panic (or an in-range twin that must not), inside a frame whose deferred function recovers, and
prints trace lines after.  The reference Go toolchain's output for the same source is the oracle."""

PRELUDE = r'''
package main

//go:noinline
func oi(x int) int { return x }

//go:noinline
func oi8(x int8) int8 { return x }

//go:noinline
func ou8(x uint8) uint8 { return x }

//go:noinline
func oi16(x int16) int16 { return x }

//go:noinline
func ou16(x uint16) uint16 { return x }

//go:noinline
func oi32(x int32) int32 { return x }

//go:noinline
func ou32(x uint32) uint32 { return x }

//go:noinline
func oi64(x int64) int64 { return x }

//go:noinline
func ou64(x uint64) uint64 { return x }

//go:noinline
func ou(x uint) uint { return x }

//go:noinline
func ouptr(x uintptr) uintptr { return x }

//go:noinline
func mk(n int) []int32 {
	s := make([]int32, n, n+2)
	for i := range s {
		s[i] = int32(10 + i)
	}
	return s
}

//go:noinline
func mkstr(n int) string { return "abcdefghij"[:n] }

type arr5 = [5]int32

//go:noinline
func mkarr() *arr5 { return &arr5{20, 21, 22, 23, 24} }

//go:noinline
func nilarr() *arr5 { return nil }

//go:noinline
func nilptr() *int { return nil }

type pt struct{ a, b int }

//go:noinline
func nilpt() *pt { return nil }

//go:noinline
func nilmap() map[string]int { return nil }

//go:noinline
func nilchan() chan int { return nil }

//go:noinline
func nilfunc() func() int { return nil }

type emptyI interface{}
type stringer interface{ String() string }

//go:noinline
func nilstringer() stringer { return nil }
type named int

func (n named) String() string { return "named" }

//go:noinline
func boxi(v int) interface{} { return v }

//go:noinline
func boxs(v string) interface{} { return v }

//go:noinline
func boxn(v int) interface{} { return named(v) }

//go:noinline
func nilface() interface{} { return nil }

var sink int

func run(idx int) {
	switch idx {
@CASES@
	default:
		println("bad case", idx)
	}
}

func main() {
	idx := readIndex()
	for k := 0; k < 3; k++ {
		run(idx)
	}
	println("done")
}
'''

INPUT_LLGO = r'''//go:build !goref

package main

import _ "unsafe"

//go:linkname getchar C.getchar
func getchar() int32

func readIndex() int {
	v := 0
	c := getchar()
	for c >= '0' && c <= '9' {
		v = v*10 + int(c-'0')
		c = getchar()
	}
	return v
}
'''

INPUT_GO = r'''//go:build goref

package main

import "os"

func readIndex() int {
	v := 0
	b := make([]byte, 1)
	for {
		n, _ := os.Stdin.Read(b)
		if n == 0 || b[0] < '0' || b[0] > '9' {
			return v
		}
		v = v*10 + int(b[0]-'0')
	}
}
'''

ITYPES = [("int", "oi"), ("int8", "oi8"), ("uint8", "ou8"), ("int16", "oi16"), ("uint16", "ou16"), ("int32", "oi32"),
          ("uint32", "ou32"), ("int64", "oi64"), ("uint64", "ou64"), ("uint", "ou"), ("uintptr", "ouptr")]


def cases(rng, n_extra):
    """-> list of dict(kind, body, known) ; body uses `sink`/println to observe"""
    C = []

    def add(kind, body, known=None, note=""):
        C.append(dict(kind=kind, body=body, known=known, note=note))

    # ---- index expressions: every indexable kind x index type x value around the bounds
    for (t, f) in ITYPES:
        signed = not t.startswith("u")
        vals = [0, 2, 3, 4, 5, 6, 100]
        if signed:
            vals += [-1, -100]
        for v in vals:
            lit = "%s(%d)" % (f, v)
            add("index-slice", "s := mk(3); i := %s; println(s[i])" % lit)
            add("index-aptr", "a := mkarr(); i := %s; println(a[i])" % lit)
            add("index-str", "s := mkstr(3); i := %s; println(s[i])" % lit)
        add("index-array", "a := *mkarr(); i := %s(7); println(a[i])" % f)
        add("index-slice-store", "s := mk(3); i := %s(3); s[i] = 7; println(s[0])" % f)
    # typed CONSTANT indexes (checkRange's constant branches), in range and out of range, loads and stores
    for ct in ("uint", "uint8", "uint64", "uintptr", "int8", "int"):
        for c in (0, 2, 3, 5):
            add("index-const-slice", "const k %s = %d; s := mk(3); println(s[k])" % (ct, c))
            add("index-const-str", "const k %s = %d; s := mkstr(3); println(s[k])" % (ct, c))
            add("index-const-store", "const k %s = %d; s := mk(3); s[k] = 9; println(s[0])" % (ct, c))
        add("index-const-aptr", "const k %s = 4; a := mkarr(); println(a[k])" % ct)
    # constant dividends / divisors at the minInt corner
    for (t, f, mn) in (("int8", "oi8", -128), ("int16", "oi16", -32768), ("int32", "oi32", -2147483648), ("int64", "oi64", -9223372036854775808)):
        add("div-const-min", "const x %s = %d; y := %s(-1); println(x / y, x %% y)" % (t, mn, f))
        add("div-const-min", "const x %s = %d; y := %s(0); println(x / y)" % (t, mn, f))
        add("div-const-min", "const x %s = %d; y := %s(3); println(x / y, x %% y)" % (t, mn, f))
        add("div-const-min", "x := %s(%d); println(x / -1, x %% -1)" % (f, mn))
    for (t, f) in [("uint64", "ou64"), ("int64", "oi64"), ("uint32", "ou32")]:
        big = {"uint64": "1<<63", "int64": "1<<62", "uint32": "1<<31"}[t]
        add("index-slice", "s := mk(3); i := %s(%s); println(s[i])" % (f, big))
        add("index-str", "s := mkstr(3); i := %s(%s); println(s[i])" % (f, big))
    # ---- slice expressions, 2- and 3-index, all operand kinds
    bounds = [(0, 0, 0), (0, 3, 3), (1, 2, 4), (0, 5, 5), (0, 6, 6), (2, 1, 3), (3, 3, 3), (4, 4, 5), (0, 4, 3), (6, 6, 6), (-1, 2, 3), (1, -1, 3), (1, 2, -1), (0, 3, 6)]
    for (i, j, k) in bounds:
        I, J, K = "oi(%d)" % i, "oi(%d)" % j, "oi(%d)" % k
        add("slice2-slice", "s := mk(3); t := s[%s:%s]; println(len(t), cap(t))" % (I, J))
        add("slice3-slice", "s := mk(3); t := s[%s:%s:%s]; println(len(t), cap(t))" % (I, J, K))
        add("slice2-aptr", "a := mkarr(); t := a[%s:%s]; println(len(t), cap(t))" % (I, J))
        add("slice3-aptr", "a := mkarr(); t := a[%s:%s:%s]; println(len(t), cap(t))" % (I, J, K))
        add("slice2-str", "s := mkstr(5); t := s[%s:%s]; println(len(t), t)" % (I, J))
        add("slice-low-only", "s := mk(3); t := s[%s:]; println(len(t), cap(t))" % I)
        add("slice-high-only", "s := mkstr(5); t := s[:%s]; println(len(t), t)" % J)
        add("slice2-array", "a := *mkarr(); t := a[%s:%s]; println(len(t), cap(t))" % (I, J))
    for (t, f) in ITYPES:
        add("slice2-idxtype", "s := mk(3); t := s[%s(1):%s(6)]; println(len(t))" % (f, f))
        add("slice2-idxtype", "s := mk(3); t := s[%s(1):%s(4)]; println(len(t), cap(t))" % (f, f))
    # ---- bounds of NARROW UNSIGNED types with the top bit set (must be zero-extended, never sign-extended): in range => no panic
    for (t, f, v) in (("uint8", "ou8", 200), ("uint16", "ou16", 40000), ("uint32", "ou32", 3000000000)):
        n = 300 if t == "uint8" else 70000
        if t != "uint32":
            add("narrow-unsigned-bound", "s := make([]byte, %d); t := s[%s(%d):]; println(len(t), cap(t))" % (n, f, v))
            add("narrow-unsigned-bound", "s := make([]byte, %d); t := s[:%s(%d)]; println(len(t))" % (n, f, v))
            add("narrow-unsigned-bound", "s := make([]byte, %d); t := s[1:%s(%d):%s(%d)]; println(len(t), cap(t))" % (n, f, v, f, v))
            add("narrow-unsigned-bound", "s := make([]byte, %s(%d)); println(len(s), cap(s))" % (f, v))
            add("narrow-unsigned-bound", "s := make([]int32, 1, %s(%d)); println(len(s), cap(s))" % (f, v))
            add("narrow-unsigned-bound", "s := make([]byte, %d); s[%s(%d)] = 7; println(s[%s(%d)])" % (n, f, v, f, v))
        add("narrow-unsigned-bound", "s := mk(3); i := %s(%d); println(s[i])" % (f, v))
    # ---- nil pointer dereference
    add("nil-deref", "p := nilptr(); println(*p)")
    add("nil-deref", "p := nilptr(); *p = 3; println(1)")
    add("nil-deref", "p := nilpt(); println(p.b)")
    add("nil-deref", "p := nilpt(); p.b = 2; println(1)")
    add("nil-deref-dead", "p := nilptr(); _ = *p; println(1)")
    add("nil-ok", "p := nilptr(); println(p == nil)")
    # ---- maps
    add("nil-map-write", 'm := nilmap(); m["a"] = 1; println(len(m))')
    add("nil-map-read", 'm := nilmap(); v, ok := m["a"]; println(v, ok, len(m))')
    add("nil-map-delete", 'm := nilmap(); delete(m, "a"); println(len(m))')
    # ---- type assertions
    add("assert-fail", "x := boxs(\"s\"); println(x.(int))")
    add("assert-fail", "x := boxi(1); println(x.(string))")
    add("assert-fail", "x := boxi(1); println(x.(stringer).String())")
    add("assert-fail", "x := nilface(); println(x.(int))")
    # nil interface values asserted to (other) interface types, empty ones included
    add("assert-nil-iface", "x := nilface(); y := x.(emptyI); println(y == nil)")
    add("assert-nil-iface", "i := nilstringer(); y := i.(interface{}); println(y == nil)")
    add("assert-nil-iface", "i := nilstringer(); y := i.(emptyI); println(y == nil)")
    add("assert-nil-iface-commaok", "x := nilface(); y, ok := x.(emptyI); println(y == nil, ok)")
    add("assert-nil-iface-commaok", "i := nilstringer(); y, ok := i.(interface{}); println(y == nil, ok)")
    add("assert-nil-iface-switch", "x := nilface(); switch x.(type) { case emptyI: println(1); case nil: println(2); default: println(3) }")
    add("assert-nil-iface-switch", "i := nilstringer(); switch i.(type) { case interface{}: println(1); default: println(3) }")
    add("assert-ok", "x := boxi(7); y := x.(emptyI); println(y != nil)")
    add("assert-ok", "x := boxi(7); println(x.(int))")
    add("assert-ok", "x := boxn(7); println(x.(stringer).String())")
    add("assert-commaok", "x := boxs(\"s\"); v, ok := x.(int); println(v, ok)")
    add("assert-commaok", "x := nilface(); v, ok := x.(stringer); println(v == nil, ok)")
    # ---- integer division by zero
    for (t, f) in ITYPES:
        add("div-zero", "a, b := %s(7), %s(0); println(a / b)" % (f, f))
        add("div-zero", "a, b := %s(7), %s(0); println(a %% b)" % (f, f))
        add("div-ok", "a, b := %s(7), %s(2); println(a / b, a %% b)" % (f, f))
    add("div-minint", "a, b := oi32(-2147483648), oi32(-1); println(a / b, a % b)")
    add("div-minint", "a, b := oi64(-9223372036854775808), oi64(-1); println(a / b, a % b)")
    # ---- make
    add("make-neg", "n := oi(-1); s := make([]int32, n); println(len(s))")
    add("make-neg", "n := oi(-1); s := make([]int32, 0, n); println(len(s))")
    add("make-cap-lt-len", "n := oi(2); s := make([]int32, 3, n); println(len(s))")
    add("make-oversize", "n := oi(1 << 62); s := make([]int64, n); println(len(s))")
    add("make-oversize-const", "s := make([]int64, 1<<62); println(len(s))")
    # zero-size element types: the byte-size tests cannot stand in for the sign tests
    add("make-neg-zerosize", "n := oi(-1); s := make([]struct{}, n); println(len(s))")
    add("make-neg-zerosize", "n := oi(-1); s := make([]struct{}, 2, n); println(len(s), cap(s))")
    add("make-neg-zerosize", "n, m := oi(-3), oi(-1); s := make([][0]int, n, m); println(len(s), cap(s))")
    add("make-neg-zerosize", "n := oi(1); s := make([][0]int, 3, n); println(len(s), cap(s))")
    add("make-ok", "n := oi(1 << 40); s := make([]struct{}, n); println(len(s), cap(s))")
    add("make-ok", "n := oi(4); s := make([]int64, n, n+1); println(len(s), cap(s))")
    add("make-neg8", "n := oi8(-3); s := make([]byte, n); println(len(s))")
    add("make-chan-neg", "n := oi(-1); c := make(chan int, n); println(cap(c))")
    # a channel buffer whose byte size wraps / exceeds the allocation limit; slicing through a nil array pointer
    add("make-chan-oversize", "n := oi(1 << 62); c := make(chan int64, n); println(cap(c))")
    add("make-chan-oversize", "n := oi(1<<46 + 1); c := make(chan int32, n); println(cap(c))")
    add("nil-aptr-slice", "a := nilarr(); s := a[:]; println(len(s))")
    add("nil-aptr-slice", "a := nilarr(); s := a[oi(1):oi(2)]; println(len(s))")
    add("nil-aptr-slice", "a := nilarr(); s := a[oi(0):oi(0)]; println(len(s))")
    for (t, f) in (("int8", "oi8"), ("int16", "oi16"), ("int32", "oi32"), ("int64", "oi64")):
        add("make-chan-neg-narrow", "n := %s(-1); c := make(chan int, n); println(cap(c))" % f)
        add("make-chan-ok-narrow", "n := %s(3); c := make(chan int, n); println(cap(c))" % f)
        add("make-neg-narrow", "n := %s(-2); s := make([]int32, n); println(len(s))" % f)
        add("make-neg-narrow", "n := %s(-2); s := make([]int32, 0, n); println(cap(s))" % f)
        add("make-map-neg-hint", "n := %s(-2); m := make(map[int]int, n); m[1] = 2; println(len(m))" % f)
    for (t, f, v) in (("uint8", "ou8", 200), ("uint16", "ou16", 40000)):
        add("make-chan-ok-narrow", "n := %s(%d); c := make(chan int, n); println(cap(c))" % (f, v))
    # ---- slice to array (pointer) conversion
    add("s2a-short", "s := mk(3); a := [4]int32(s); println(a[0])")
    add("s2a-short", "s := mk(3); a := (*[4]int32)(s); println(a[0])")
    add("s2a-ok", "s := mk(4); a := [4]int32(s); println(a[3])")
    add("s2a-ok", "s := mk(4); a := (*[3]int32)(s); println(a[2])")
    add("s2a-ok", "var s []int32; a := (*[0]int32)(s); println(a == nil)")
    # ---- channels
    add("chan-send-closed", "c := make(chan int, 1); close(c); c <- 1; println(1)")
    add("chan-send-closed", "c := make(chan int); close(c); c <- 1; println(1)")
    add("chan-close-closed", "c := make(chan int); close(c); close(c); println(1)")
    add("chan-close-nil", "c := nilchan(); close(c); println(1)")
    add("chan-ok", "c := make(chan int, 1); c <- 4; close(c); v, ok := <-c; w, ok2 := <-c; println(v, ok, w, ok2)")
    # ---- nil func value
    add("nil-func-call", "f := nilfunc(); println(f())")
    # ---- explicit panics with different value kinds, re-panic in deferred call handled by C04
    add("explicit", 'panic("boom")')
    add("explicit", "panic(oi(3))")
    # ---- sequencing: side effects before the fault happen, later ones do not
    add("seq", "s := mk(2); sink = 0; sink++; s[oi(0)] = 1; sink++; s[oi(5)] = 2; sink++; println(sink)", note="observed through sink in the recover handler")
    add("seq", "a, b := oi(1), oi(0); sink = 10; sink += a; sink += a / b; sink += 100; println(sink)")
    # ---- random in-range / out-of-range index mixes
    for _ in range(n_extra):
        n = rng.randint(0, 6)
        i = rng.randint(-2, 8)
        j = rng.randint(-2, 8)
        k = rng.randint(-2, 9)
        t, f = rng.choice(ITYPES)
        if t.startswith("u"):
            i, j, k = abs(i), abs(j), abs(k)
        which = rng.randint(0, 3)
        if which == 0:
            add("rnd-index", "s := mk(%d); println(s[%s(%d)])" % (n, f, i))
        elif which == 1:
            add("rnd-slice2", "s := mk(%d); t := s[%s(%d):%s(%d)]; println(len(t), cap(t))" % (n, f, i, f, j))
        elif which == 2:
            add("rnd-slice3", "s := mk(%d); t := s[%s(%d):%s(%d):%s(%d)]; println(len(t), cap(t))" % (n, f, i, f, j, f, k))
        else:
            add("rnd-str", "s := mkstr(%d); println(s[%s(%d):%s(%d)])" % (min(n, 9), f, i, f, j))
    return C


def program(C):
    out = []
    for idx, c in enumerate(C):
        out.append("\tcase %d:\n\t\tprintln(%d, \"before\")\n\t\tfunc() {\n\t\t\tdefer func() {\n\t\t\t\tif r := recover(); r != nil {\n\t\t\t\t\tprintln(%d, \"recovered\", sink)\n\t\t\t\t}\n\t\t\t}()\n\t\t\t%s\n\t\t\tprintln(%d, \"completed\")\n\t\t}()\n\t\tprintln(%d, \"after\")"
                   % (idx, idx, idx, c["body"], idx, idx))
    return PRELUDE.replace("@CASES@", "\n".join(out))
