// Correspondence harness for C20: builds generated archives and unpacks them with the REAL extraction
// functions of internal/crosscompile (reached through the overlay accessor file), inside a throw-away
// directory tree whose WHOLE content is listed afterwards, so that an escaping entry is observable and harmless.
//
// Line protocol (one request per line, one answer per line; H = hex, "-" = empty string):
//
//	clean H | join H H | dir H                -> ok H                       (Go's path/filepath, the reference of Model/Path.lean)
//	x FMT ENTRIES                             -> ok|err LISTING | skip      FMT = tgz | zip | txz
//	xb FMT FILEBYTES                          -> ok|err LISTING | skip      the archive file given byte for byte (container-level cases)
//	lib FMT SUB FNAME ENTRIES                 -> ok|err LISTING             one checkDownloadAndExtractLib call (httptest server)
//	conc MODE N FMT SUB FNAME ENTRIES         -> ok|err nerr=K downloads=D LISTING   MODE = go | proc, N concurrent calls
//	lockrace                                  -> holders=K                  acquireLock/releaseLock choreography (unlink-after-unlock)
//
// ENTRIES = "." | E,E,…   E = K:NAME:DATA:LINK   K = d(ir) f(ile) s(ymlink) h(ardlink) o(ther: fifo)
// LISTING = "." | P=d P=f:DATA P=l:TARGET P=o …  (sorted by path bytes, paths relative to the case directory)
package main

import (
	"archive/zip"
	"bufio"
	"bytes"
	"compress/gzip"
	"encoding/hex"
	"fmt"
	"io"
	"net/http"
	"net/http/httptest"
	"os"
	"os/exec"
	"path/filepath"
	"sort"
	"strconv"
	"strings"
	"sync"
	"sync/atomic"
	"time"

	cc "github.com/goplus/llgo/internal/crosscompile"
)

// the destination sits 7 levels below the case directory; names may climb at most maxUp levels
const destRel = "g1/g2/g3/root/a/b/dest"
const maxUp = 6

type entry struct {
	kind             byte
	name, data, link string
}

func unhex(h string) (string, bool) {
	if h == "-" {
		return "", true
	}
	b, err := hex.DecodeString(h)
	return string(b), err == nil
}

func hx(s string) string {
	if s == "" {
		return "-"
	}
	return hex.EncodeToString([]byte(s))
}

func parseEntries(s string) ([]entry, bool) {
	if s == "." {
		return nil, true
	}
	var out []entry
	for _, es := range strings.Split(s, ",") {
		p := strings.Split(es, ":")
		if len(p) != 4 || len(p[0]) != 1 {
			return nil, false
		}
		n, ok1 := unhex(p[1])
		d, ok2 := unhex(p[2])
		l, ok3 := unhex(p[3])
		if !ok1 || !ok2 || !ok3 || strings.IndexByte(n, 0) >= 0 || strings.IndexByte(l, 0) >= 0 {
			return nil, false
		}
		out = append(out, entry{p[0][0], n, d, l})
	}
	return out, true
}

// ---------------------------------------------------------------- archive writers (trusted, small)

func octal(b []byte, v int64) {
	s := strconv.FormatInt(v, 8)
	for len(s) < len(b)-1 {
		s = "0" + s
	}
	copy(b, s)
	b[len(b)-1] = 0
}

func tarHeader(name string, typeflag byte, size int64, mode int64, link string) []byte {
	h := make([]byte, 512)
	copy(h[0:100], name)
	octal(h[100:108], mode)
	octal(h[108:116], 0)
	octal(h[116:124], 0)
	octal(h[124:136], size)
	octal(h[136:148], 1700000000)
	h[156] = typeflag
	copy(h[157:257], link)
	copy(h[257:265], "ustar  \x00") // GNU magic: no prefix field, long names through 'L' records
	for i := 148; i < 156; i++ {
		h[i] = ' '
	}
	sum := int64(0)
	for _, c := range h {
		sum += int64(c)
	}
	s := strconv.FormatInt(sum, 8)
	for len(s) < 6 {
		s = "0" + s
	}
	copy(h[148:154], s)
	h[154] = 0
	h[155] = ' '
	return h
}

func pad512(w *bytes.Buffer, n int) {
	if r := n % 512; r != 0 {
		w.Write(make([]byte, 512-r))
	}
}

func rawTar(es []entry) []byte {
	var w bytes.Buffer
	for _, e := range es {
		long := func(t byte, s string) {
			w.Write(tarHeader("././@LongLink", t, int64(len(s)+1), 0644, ""))
			w.WriteString(s)
			w.WriteByte(0)
			pad512(&w, len(s)+1)
		}
		if len(e.link) > 100 {
			long('K', e.link)
		}
		if len(e.name) > 100 {
			long('L', e.name)
		}
		nm, lk := e.name, e.link
		if len(nm) > 100 {
			nm = nm[:100]
		}
		if len(lk) > 100 {
			lk = lk[:100]
		}
		switch e.kind {
		case 'd':
			w.Write(tarHeader(nm, '5', 0, 0755, ""))
		case 'f':
			w.Write(tarHeader(nm, '0', int64(len(e.data)), 0644, ""))
			w.WriteString(e.data)
			pad512(&w, len(e.data))
		case 's':
			w.Write(tarHeader(nm, '2', 0, 0777, lk))
		case 'h':
			w.Write(tarHeader(nm, '1', 0, 0644, lk))
		default:
			w.Write(tarHeader(nm, '6', 0, 0644, ""))
		}
	}
	w.Write(make([]byte, 1024))
	return w.Bytes()
}

func buildArchive(fmtName string, es []entry) ([]byte, error) {
	switch fmtName {
	case "tgz":
		var b bytes.Buffer
		g := gzip.NewWriter(&b)
		g.Write(rawTar(es))
		g.Close()
		return b.Bytes(), nil
	case "txz":
		cmd := exec.Command("xz", "-z", "-c", "-0")
		cmd.Stdin = bytes.NewReader(rawTar(es))
		return cmd.Output()
	case "zip":
		var b bytes.Buffer
		z := zip.NewWriter(&b)
		for _, e := range es {
			fh := &zip.FileHeader{Name: e.name, Method: zip.Deflate}
			data := e.data
			switch e.kind {
			case 'd':
				fh.SetMode(0755 | os.ModeDir)
				data = ""
			case 's':
				fh.SetMode(0777 | os.ModeSymlink)
				data = e.link
			default:
				fh.SetMode(0644)
			}
			w, err := z.CreateHeader(fh)
			if err != nil {
				return nil, err
			}
			if !strings.HasSuffix(e.name, "/") && data != "" {
				if _, err := io.WriteString(w, data); err != nil {
					return nil, err
				}
			}
		}
		if err := z.Close(); err != nil {
			return nil, err
		}
		return b.Bytes(), nil
	}
	return nil, fmt.Errorf("format")
}

func ext(fmtName string) string {
	switch fmtName {
	case "tgz":
		return ".tar.gz"
	case "txz":
		return ".tar.xz"
	}
	return ".zip"
}

// ---------------------------------------------------------------- listing

func listing(root string) string {
	var items []string
	filepath.WalkDir(root, func(p string, d os.DirEntry, err error) error {
		if err != nil || p == root {
			return nil
		}
		rel := p[len(root)+1:]
		fi, err := os.Lstat(p)
		if err != nil {
			return nil
		}
		switch {
		case fi.Mode()&os.ModeSymlink != 0:
			t, _ := os.Readlink(p)
			items = append(items, hx(rel)+"=l:"+hx(t))
		case fi.IsDir():
			items = append(items, hx(rel)+"=d")
		case fi.Mode().IsRegular():
			b, _ := os.ReadFile(p)
			items = append(items, hx(rel)+"=f:"+hx(string(b)))
		default:
			items = append(items, hx(rel)+"=o")
		}
		return nil
	})
	if len(items) == 0 {
		return "."
	}
	// sort by path bytes (hex of equal-case digits preserves byte order up to prefix ties; sort on decoded path)
	sort.Slice(items, func(i, j int) bool {
		a, _ := unhex(items[i][:strings.IndexByte(items[i], '=')])
		b, _ := unhex(items[j][:strings.IndexByte(items[j], '=')])
		return a < b
	})
	return strings.Join(items, " ")
}

func chmodAll(root string) {
	filepath.WalkDir(root, func(p string, d os.DirEntry, err error) error {
		if d != nil && d.IsDir() {
			os.Chmod(p, 0755)
		}
		return nil
	})
}

func countUp(s string) int {
	n := 0
	for _, c := range strings.Split(s, "/") {
		if c == ".." {
			n++
		}
	}
	return n
}

var base string
var caseNo int

func newCase() string {
	caseNo++
	d := filepath.Join(base, "c"+strconv.Itoa(caseNo))
	os.RemoveAll(d)
	return d
}

func doExtract(fmtName string, es []entry) string {
	for _, e := range es {
		if countUp(e.name) > maxUp || countUp(e.link) > maxUp || strings.HasPrefix(e.link, "/") {
			return "skip"
		}
	}
	ar, err := buildArchive(fmtName, es)
	if err != nil {
		return "skip"
	}
	return doExtractBytes(fmtName, ar)
}

// the archive file is given byte for byte; the generator is responsible for names that stay inside the case directory
func doExtractBytes(fmtName string, ar []byte) string {
	var err error
	cd := newCase()
	dest := filepath.Join(cd, destRel)
	if err := os.MkdirAll(dest, 0755); err != nil {
		return "skip"
	}
	arf := cd + ext(fmtName)
	if err := os.WriteFile(arf, ar, 0644); err != nil {
		return "skip"
	}
	defer os.Remove(arf)
	defer func() { chmodAll(cd); os.RemoveAll(cd) }()
	switch fmtName {
	case "tgz":
		err = cc.VerifExtractTarGz(arf, dest)
	case "txz":
		err = cc.VerifExtractTarXz(arf, dest)
	case "zip":
		err = cc.VerifExtractZip(arf, dest)
	}
	st := "ok "
	if err != nil {
		st = "err "
	}
	return st + listing(cd)
}

// ---------------------------------------------------------------- download + lock protocol

func doConc(mode string, n int, fmtName, sub, fname string, es []entry) string {
	ar, err := buildArchive(fmtName, es)
	if err != nil {
		return "skip"
	}
	cd := newCase()
	defer func() { chmodAll(cd); os.RemoveAll(cd) }()
	cache := filepath.Join(cd, "cache")
	dst := filepath.Join(cache, "lib")
	var downloads int32
	srv := httptest.NewServer(http.HandlerFunc(func(w http.ResponseWriter, r *http.Request) {
		atomic.AddInt32(&downloads, 1)
		time.Sleep(15 * time.Millisecond)
		w.Write(ar)
	}))
	defer srv.Close()
	url := srv.URL + "/" + fname
	var nerr int32
	var wg sync.WaitGroup
	start := make(chan struct{})
	for i := 0; i < n; i++ {
		wg.Add(1)
		go func(i int) {
			defer wg.Done()
			<-start
			if mode == "proc" {
				cmd := exec.Command(os.Args[0], "-child", url, dst, sub)
				if td := os.Getenv("C20_STRACE_DIR"); td != "" {
					// thorough tier: every caller runs under its own strace (trace validation against the protocol model)
					cmd = exec.Command("strace", "-f", "-ttt", "-T", "-o", filepath.Join(td, fmt.Sprintf("c%d-p%d.txt", caseNo, i)),
						"-e", "trace=flock,openat,rename,renameat,renameat2,unlink,unlinkat,newfstatat,mkdir,mkdirat",
						os.Args[0], "-child", url, dst, sub)
				}
				if err := cmd.Run(); err != nil {
					atomic.AddInt32(&nerr, 1)
				}
			} else if err := cc.VerifCheckDownloadAndExtractLib(url, dst, sub); err != nil {
				atomic.AddInt32(&nerr, 1)
			}
		}(i)
	}
	close(start)
	wg.Wait()
	st := "ok"
	if nerr != 0 {
		st = "err"
	}
	return fmt.Sprintf("%s nerr=%d downloads=%d %s", st, nerr, downloads, listing(cd))
}

func lockFDs(path string) int {
	ds, _ := os.ReadDir("/proc/self/fd")
	n := 0
	for _, d := range ds {
		if t, err := os.Readlink("/proc/self/fd/" + d.Name()); err == nil && (t == path || t == path+" (deleted)") {
			n++
		}
	}
	return n
}

// A holds the lock; B opens the lock file and blocks in flock; A releases (unlock, close, unlink);
// B now holds the lock on the unlinked inode; C calls acquireLock: does it get a second lock at once?
func doLockRace() string {
	cd := newCase()
	defer os.RemoveAll(cd)
	os.MkdirAll(cd, 0755)
	lp := filepath.Join(cd, "lib.lock")
	fa, err := cc.VerifAcquireLock(lp)
	if err != nil {
		return "err"
	}
	bch := make(chan *os.File, 1)
	go func() { f, _ := cc.VerifAcquireLock(lp); bch <- f }()
	for i := 0; i < 2000 && lockFDs(lp) < 2; i++ {
		time.Sleep(time.Millisecond)
	}
	time.Sleep(20 * time.Millisecond)
	cc.VerifReleaseLock(fa)
	var fb *os.File
	select {
	case fb = <-bch:
	case <-time.After(5 * time.Second):
		return "err"
	}
	cch := make(chan *os.File, 1)
	go func() { f, _ := cc.VerifAcquireLock(lp); cch <- f }()
	holders := 1
	var fc *os.File
	select {
	case fc = <-cch:
		if fc != nil && fb != nil {
			holders = 2
		}
	case <-time.After(700 * time.Millisecond):
	}
	cc.VerifReleaseLock(fb)
	if fc == nil {
		select {
		case fc = <-cch:
		case <-time.After(5 * time.Second):
		}
	}
	cc.VerifReleaseLock(fc)
	return fmt.Sprintf("holders=%d", holders)
}

func handle(line string) (out string) {
	defer func() {
		if e := recover(); e != nil {
			out = fmt.Sprintf("panic %v", e)
		}
	}()
	f := strings.Fields(line)
	if len(f) == 0 {
		return "bad-op"
	}
	switch {
	case f[0] == "clean" && len(f) == 2:
		s, ok := unhex(f[1])
		if !ok {
			return "bad-op"
		}
		return "ok " + hx(filepath.Clean(s))
	case f[0] == "dir" && len(f) == 2:
		s, ok := unhex(f[1])
		if !ok {
			return "bad-op"
		}
		return "ok " + hx(filepath.Dir(s))
	case f[0] == "join" && len(f) == 3:
		a, ok1 := unhex(f[1])
		b, ok2 := unhex(f[2])
		if !ok1 || !ok2 {
			return "bad-op"
		}
		return "ok " + hx(filepath.Join(a, b))
	case f[0] == "x" && len(f) == 3:
		es, ok := parseEntries(f[2])
		if !ok || (f[1] != "tgz" && f[1] != "zip" && f[1] != "txz") {
			return "bad-op"
		}
		return doExtract(f[1], es)
	case f[0] == "xb" && len(f) == 3:
		b, ok := unhex(f[2])
		if !ok || (f[1] != "tgz" && f[1] != "zip" && f[1] != "txz") {
			return "bad-op"
		}
		return doExtractBytes(f[1], []byte(b))
	case f[0] == "conc" && len(f) == 7:
		n, err := strconv.Atoi(f[2])
		sub, ok1 := unhex(f[4])
		fname, ok2 := unhex(f[5])
		es, ok3 := parseEntries(f[6])
		if err != nil || n < 1 || n > 8 || !ok1 || !ok2 || !ok3 || (f[1] != "go" && f[1] != "proc") {
			return "bad-op"
		}
		return doConc(f[1], n, f[3], sub, fname, es)
	case f[0] == "lib" && len(f) == 5:
		sub, ok1 := unhex(f[2])
		fname, ok2 := unhex(f[3])
		es, ok3 := parseEntries(f[4])
		if !ok1 || !ok2 || !ok3 {
			return "bad-op"
		}
		return doConc("go", 1, f[1], sub, fname, es)
	case f[0] == "lockrace" && len(f) == 1:
		return doLockRace()
	}
	return "bad-op"
}

func main() {
	// the functions under test chat on stderr
	if dn, err := os.OpenFile(os.DevNull, os.O_WRONLY, 0); err == nil {
		os.Stderr = dn
	}
	if len(os.Args) == 5 && os.Args[1] == "-child" {
		if err := cc.VerifCheckDownloadAndExtractLib(os.Args[2], os.Args[3], os.Args[4]); err != nil {
			os.Exit(3)
		}
		return
	}
	base = os.Getenv("C20_SCRATCH")
	if base == "" || !filepath.IsAbs(base) {
		fmt.Println("C20_SCRATCH must name an absolute scratch directory")
		os.Exit(2)
	}
	base = filepath.Join(filepath.Clean(base), "p"+strconv.Itoa(os.Getpid()))
	if err := os.MkdirAll(base, 0755); err != nil {
		fmt.Println(err)
		os.Exit(2)
	}
	defer os.RemoveAll(base)
	sc := bufio.NewScanner(os.Stdin)
	sc.Buffer(make([]byte, 1<<20), 1<<26)
	w := bufio.NewWriter(os.Stdout)
	defer w.Flush()
	for sc.Scan() {
		fmt.Fprintln(w, handle(sc.Text()))
	}
}
