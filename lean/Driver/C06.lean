/-! placeholder driver (property C06 not built yet) -/
def main : IO Unit := IO.println "bad-op"
