import LlgoVerif.Spec.InitShape
/-! REGENERATED on every run of ./check C12 from the IR llgo emits for generated module trees
    (harness/c12/treegen.py, harness/c12/irfacts.py). Do not edit. -/
namespace LlgoVerif.Gen.C12
open LlgoVerif.Init

/-- number of facts about patched std packages at the head of `facts` -/
def nStd : Nat := 2

def facts : List InitFact := [
  -- sync/atomic.init (replacement, chained=True)
  { id := 0, hasPatchFn := false, chained := true,
    toks := [.loadGuard, .brGuard .ret .body, .storeGuard, .callHasPatch, .brRet],
    imports := [], goList := [] },
  -- sync/atomic.init$hasPatch (original)
  { id := 0, hasPatchFn := true, chained := true,
    toks := [.loadGuard, .brGuard .body .ret, .storeGuard, .brRet],
    imports := [], goList := [] },
  -- c12f/t0/tr.init
  { id := 2, hasPatchFn := false, chained := false,
    toks := [.loadGuard, .brGuard .ret .body, .storeGuard, .act, .brRet],
    imports := [], goList := [] },
  -- c12f/t0/bravo.init
  { id := 3, hasPatchFn := false, chained := false,
    toks := [.loadGuard, .brGuard .ret .body, .storeGuard, .callInit 2, .callInit 0, .act, .brRet],
    imports := [2, 0], goList := [0, 2] },
  -- c12f/t0/beta.init (work-free package)
  { id := 4, hasPatchFn := false, chained := false,
    toks := [.loadGuard, .brGuard .ret .body, .storeGuard, .callInit 3, .brRet],
    imports := [3], goList := [3] },
  -- c12f/t0/yank.init
  { id := 5, hasPatchFn := false, chained := false,
    toks := [.loadGuard, .brGuard .ret .body, .storeGuard, .callInit 2, .callInit 4, .act, .brRet],
    imports := [2, 4], goList := [2, 4] },
  -- c12f/t0/kilo.init (work-free package)
  { id := 6, hasPatchFn := false, chained := false,
    toks := [.loadGuard, .brGuard .ret .body, .storeGuard, .brRet],
    imports := [], goList := [] },
  -- c12f/t0/echo.init (work-free package)
  { id := 7, hasPatchFn := false, chained := false,
    toks := [.loadGuard, .brGuard .ret .body, .storeGuard, .callInit 1, .callInit 6, .brRet],
    imports := [1, 6], goList := [1, 6] },
  -- c12f/t0/zeta.init
  { id := 8, hasPatchFn := false, chained := false,
    toks := [.loadGuard, .brGuard .ret .body, .storeGuard, .callInit 7, .callInit 2, .callInit 4, .act, .brRet],
    imports := [7, 2, 4], goList := [2, 4, 7] },
  -- c12f/t0.init
  { id := 9, hasPatchFn := false, chained := false,
    toks := [.loadGuard, .brGuard .ret .body, .storeGuard, .callInit 2, .callInit 0, .callInit 1, .callInit 5, .callInit 8, .act, .brRet],
    imports := [2, 0, 1, 5, 8], goList := [0, 1, 2, 5, 8] },
  -- math/bits.init (std package compiled by llgo)
  { id := 0, hasPatchFn := false, chained := false,
    toks := [.loadGuard, .brGuard .ret .body, .storeGuard, .act, .brRet],
    imports := [], goList := [] },
  -- unicode/utf8.init (std package compiled by llgo)
  { id := 0, hasPatchFn := false, chained := false,
    toks := [.loadGuard, .brGuard .ret .body, .storeGuard, .act, .brRet],
    imports := [], goList := [] },
  -- c12f/t1/tr.init
  { id := 2, hasPatchFn := false, chained := false,
    toks := [.loadGuard, .brGuard .ret .body, .storeGuard, .act, .brRet],
    imports := [], goList := [] },
  -- c12f/t1/mid.init
  { id := 3, hasPatchFn := false, chained := false,
    toks := [.loadGuard, .brGuard .ret .body, .storeGuard, .callInit 1, .callInit 0, .callInit 2, .act, .brRet],
    imports := [1, 0, 2], goList := [0, 1, 2] },
  -- c12f/t1/deep/sierra.init (work-free package)
  { id := 4, hasPatchFn := false, chained := false,
    toks := [.loadGuard, .brGuard .ret .body, .storeGuard, .callInit 3, .brRet],
    imports := [3], goList := [3] },
  -- c12f/t1/bravo.init (work-free package)
  { id := 5, hasPatchFn := false, chained := false,
    toks := [.loadGuard, .brGuard .ret .body, .storeGuard, .callInit 4, .brRet],
    imports := [4], goList := [4] },
  -- c12f/t1/kilo.init (work-free package)
  { id := 6, hasPatchFn := false, chained := false,
    toks := [.loadGuard, .brGuard .ret .body, .storeGuard, .callInit 5, .brRet],
    imports := [5], goList := [5] },
  -- c12f/t1.init
  { id := 7, hasPatchFn := false, chained := false,
    toks := [.loadGuard, .brGuard .ret .body, .storeGuard, .callInit 2, .callInit 6, .act, .brRet],
    imports := [2, 6], goList := [2, 6] }]

def entries : List EntryFact := [
  -- c12f/t0
  { calls := [.rtInit, .runtimeInit, .mainInit, .mainMain] },
  -- c12f/t1
  { calls := [.rtInit, .runtimeInit, .mainInit, .mainMain] }]

end LlgoVerif.Gen.C12
