import LlgoVerif.Model.ExtractLock
/-! Helper lemmas for C20 (lock protocol): the inductive invariant of the failure-free system (`Inv`), the part
    that survives failures (`GInv`), preservation by every step, schedules as reachability witnesses. -/
namespace LlgoVerif.ExtractLock

/-- the inode of the descriptor a process uses for locking -/
def fd : PC → Option Nat
  | .flock i | .stat2 i | .mkTmp i | .write i _ | .renTmp i | .renDst i | .unlock i _ => some i
  | _ => none

/-- past the critical section -/
def late : PC → Bool
  | .unlock _ _ | .unlink _ | .done _ => true
  | _ => false

/-- a process that reports failure -/
def failed : PC → Bool
  | .unlock _ false | .unlink false | .done false => true
  | _ => false

/-- the extraction was started (`mkTmp` executed) and not yet published -/
def began : PC → Bool
  | .write _ _ | .renTmp _ | .renDst _ => true
  | _ => false

/-- what the shared directories must hold while `p` is at `c` -/
def contentOK (K : Nat) (s : State) (p : Nat) : PC → Prop
  | .mkTmp _ => s.ext = none
  | .write _ n => n ≤ K ∧ s.tmp = some (List.replicate (K - n) p) ∧ s.ext = none
  | .renTmp _ => s.tmp = some (List.replicate K p) ∧ s.ext = none
  | .renDst _ => s.ext = some (List.replicate K p) ∧ s.tmp = none
  | _ => True

/-- what the invariant says about one process `q` at `c` -/
structure Local (K : Nat) (s : State) (q : Nat) (c : PC) : Prop where
  lock_holder : ∀ i, holds c i = true → s.locks i = some q
  early_fd : s.dst = none → ∀ i, fd c = some i → s.lockFile = some i
  early_pc : s.dst = none → late c = false
  no_failure : failed c = false
  dst_quiet : ∀ t, s.dst = some t → extracting c = false
  content : contentOK K s q c
  started_one : began c = true → s.started = 1

/-- invariant of the failure-free system -/
structure Inv (K : Nat) (s : State) : Prop where
  loc : ∀ q, Local K s q (s.pc q)
  lockfile_open : ∀ i, s.lockFile = some i → ∃ p, hasOpened (s.pc p) = true
  dst_complete : ∀ t, s.dst = some t → ∃ w, t = List.replicate K w
  idle_clean : (∀ p, extracting (s.pc p) = false) → s.tmp = none ∧ s.ext = none
  started_dst : ∀ t, s.dst = some t → s.started = 1
  started_zero : s.dst = none → (∀ p, began (s.pc p) = false) → s.started = 0

theorem extracting_fd {c : PC} (h : extracting c = true) : ∃ i, fd c = some i ∧ holds c i = true := by
  cases c <;> simp [extracting] at h <;> simp [fd, holds]

theorem Inv.dst_none_of_extracting {K : Nat} {s : State} (inv : Inv K s) {p : Nat}
    (hp : extracting (s.pc p) = true) : s.dst = none := by
  cases h : s.dst with
  | none => rfl
  | some t => have := (inv.loc p).dst_quiet t h; rw [hp] at this; cases this

/-- two processes that hold a lock while `dst` is absent are the same process -/
theorem Inv.holder_unique {K : Nat} {s : State} (inv : Inv K s) (hd : s.dst = none) {p q i j : Nat}
    (hp1 : fd (s.pc p) = some i) (hp2 : holds (s.pc p) i = true)
    (hq1 : fd (s.pc q) = some j) (hq2 : holds (s.pc q) j = true) : p = q := by
  have e1 := (inv.loc p).early_fd hd i hp1
  have e2 := (inv.loc q).early_fd hd j hq1
  rw [e1] at e2; cases e2
  have l1 := (inv.loc p).lock_holder i hp2
  have l2 := (inv.loc q).lock_holder i hq2
  rw [l1] at l2; cases l2; rfl

theorem Inv.unique {K : Nat} {s : State} (inv : Inv K s) {p q : Nat}
    (hp : extracting (s.pc p) = true) (hq : extracting (s.pc q) = true) : p = q := by
  obtain ⟨i, hi1, hi2⟩ := extracting_fd hp
  obtain ⟨j, hj1, hj2⟩ := extracting_fd hq
  exact inv.holder_unique (inv.dst_none_of_extracting hp) hi1 hi2 hj1 hj2

theorem inv_init (K : Nat) : Inv K init := by
  constructor
  · intro q; constructor <;> simp [init, holds, fd, late, failed, extracting, contentOK, began]
  all_goals simp [init, hasOpened]

@[simp] theorem setPc_pc_self {s : State} {p : Nat} (c : PC) : (setPc s p c).pc p = c := by simp [setPc]
theorem setPc_pc_ne {s : State} {p : Nat} (c : PC) {q : Nat} (h : q ≠ p) : (setPc s p c).pc q = s.pc q := by
  simp [setPc, h]

theorem contentOK_congr {K : Nat} {s s' : State} {q : Nat} {c : PC} (h4 : s'.ext = s.ext) (h5 : s'.tmp = s.tmp)
    (h : contentOK K s q c) : contentOK K s' q c := by
  revert h; cases c <;> simp [contentOK, h4, h5]

theorem contentOK_idle {K : Nat} {s : State} {q : Nat} {c : PC} (hc : extracting c = false) :
    contentOK K s q c := by
  revert hc; cases c <;> simp [contentOK, extracting]

/-- `Local` only reads `locks, lockFile, dst, ext, tmp, started` -/
theorem Local.congr {K : Nat} {s s' : State} {q : Nat} {c : PC} (h : Local K s q c)
    (h1 : s'.locks = s.locks) (h2 : s'.lockFile = s.lockFile) (h3 : s'.dst = s.dst) (h4 : s'.ext = s.ext)
    (h5 : s'.tmp = s.tmp) (h6 : s'.started = s.started) : Local K s' q c := by
  obtain ⟨a1, a2, a3, a4, a5, a6, a7⟩ := h
  constructor
  · rw [h1]; exact a1
  · rw [h2, h3]; exact a2
  · rw [h3]; exact a3
  · exact a4
  · rw [h3]; exact a5
  · revert a6; cases c <;> simp [contentOK, h4, h5]
  · rw [h6]; exact a7

/-- a non-extracting process does not care about the directories -/
theorem Local.congr_idle {K : Nat} {s s' : State} {q : Nat} {c : PC} (h : Local K s q c)
    (hc : extracting c = false)
    (h1 : s'.locks = s.locks) (h2 : s'.lockFile = s.lockFile) (h3 : s'.dst = s.dst)
    (h6 : s'.started = s.started ∨ began c = false) : Local K s' q c := by
  obtain ⟨a1, a2, a3, a4, a5, a6, a7⟩ := h
  constructor
  · rw [h1]; exact a1
  · rw [h2, h3]; exact a2
  · rw [h3]; exact a3
  · exact a4
  · rw [h3]; exact a5
  · revert hc; cases c <;> simp [contentOK, extracting]
  · rcases h6 with h6 | h6
    · rw [h6]; exact a7
    · rw [h6]; intro h; cases h


/-- assembling the per-process part after a step of `p` -/
theorem loc_setPc {K : Nat} {s s1 : State} {p : Nat} {c' : PC} (hp : Local K s1 p c')
    (ho : ∀ q, q ≠ p → Local K s1 q (s.pc q)) (hpc : s1.pc = s.pc) :
    ∀ q, Local K (setPc s1 p c') q ((setPc s1 p c').pc q) := by
  intro q
  by_cases hq : q = p
  · subst hq; rw [setPc_pc_self]; exact hp.congr rfl rfl rfl rfl rfl rfl
  · rw [setPc_pc_ne _ hq, hpc]; exact (ho q hq).congr rfl rfl rfl rfl rfl rfl

/-- a predicate on program counters that is false at `p` before and after: unchanged quantification -/
theorem forall_false_setPc {s s1 : State} {p : Nat} {c' : PC} (f : PC → Bool) (hpc : s1.pc = s.pc)
    (h0 : f (s.pc p) = false) (h : ∀ q, f ((setPc s1 p c').pc q) = false) : ∀ q, f (s.pc q) = false := by
  intro q
  by_cases hq : q = p
  · subst hq; exact h0
  · have := h q; rwa [setPc_pc_ne _ hq, hpc] at this

theorem exists_opened_setPc {s s1 : State} {p : Nat} {c' : PC} (hpc : s1.pc = s.pc)
    (h1 : hasOpened (s.pc p) = true → hasOpened c' = true) (h : ∃ q, hasOpened (s.pc q) = true) :
    ∃ q, hasOpened ((setPc s1 p c').pc q) = true := by
  obtain ⟨q, hq⟩ := h
  by_cases hqp : q = p
  · subst hqp; exact ⟨q, by rw [setPc_pc_self]; exact h1 hq⟩
  · exact ⟨q, by rw [setPc_pc_ne _ hqp, hpc]; exact hq⟩

section arms
variable {K : Nat} {s : State} {p : Nat}

theorem inv_stat1 (inv : Inv K s) (hpc : s.pc p = .stat1) :
    Inv K (setPc s p (if s.dst.isSome then .done true else .openLock)) := by
  have hc' : ∀ f : PC → Bool, f .openLock = false → f (.done true) = false →
      f (if s.dst.isSome then PC.done true else PC.openLock) = false := by
    intro f h1 h2; split <;> assumption
  constructor
  · apply loc_setPc _ (fun q _ => inv.loc q) rfl
    constructor
    · intro i; rw [hc' (holds · i) rfl rfl]; intro h; cases h
    · intro hd i; simp [hd, fd]
    · intro hd; simp [hd, late]
    · exact hc' failed rfl rfl
    · intro t _; exact hc' extracting rfl rfl
    · split <;> simp [contentOK]
    · rw [hc' began rfl rfl]; intro h; cases h
  · intro i hi
    exact exists_opened_setPc rfl (by rw [hpc]; intro h; cases h) (inv.lockfile_open i hi)
  · exact inv.dst_complete
  · intro h; exact inv.idle_clean (forall_false_setPc extracting rfl (by rw [hpc]; rfl) h)
  · exact inv.started_dst
  · intro hd h; exact inv.started_zero hd (forall_false_setPc began rfl (by rw [hpc]; rfl) h)

theorem began_extracting {c : PC} (h : began c = true) : extracting c = true := by
  cases c <;> simp [began] at h <;> rfl

theorem not_began_of_not_extracting {c : PC} (h : extracting c = false) : began c = false := by
  cases hb : began c with
  | false => rfl
  | true => rw [began_extracting hb] at h; cases h

theorem inv_openLock_some (inv : Inv K s) (hpc : s.pc p = .openLock) {i : Nat} (hl : s.lockFile = some i) :
    Inv K (setPc s p (.flock i)) := by
  constructor
  · apply loc_setPc _ (fun q _ => inv.loc q) rfl
    constructor <;> simp [holds, fd, late, failed, extracting, contentOK, began, hl]
  · intro _ _; exact ⟨p, by simp [hasOpened]⟩
  · exact inv.dst_complete
  · intro h; exact inv.idle_clean (forall_false_setPc extracting rfl (by rw [hpc]; rfl) h)
  · exact inv.started_dst
  · intro hd h; exact inv.started_zero hd (forall_false_setPc began rfl (by rw [hpc]; rfl) h)

theorem inv_openLock_none (inv : Inv K s) (hpc : s.pc p = .openLock) (hl : s.lockFile = none) :
    Inv K (setPc { s with lockFile := some s.nextIno, nextIno := s.nextIno + 1 } p (.flock s.nextIno)) := by
  constructor
  · apply loc_setPc _ _ rfl
    · constructor <;> simp [holds, fd, late, failed, extracting, contentOK, began]
    · intro q _
      obtain ⟨a1, a2, a3, a4, a5, a6, a7⟩ := inv.loc q
      constructor
      · exact a1
      · intro hd i hi
        have := a2 hd i hi
        rw [hl] at this; cases this
      · exact a3
      · exact a4
      · exact a5
      · exact contentOK_congr rfl rfl a6
      · exact a7
  · intro _ _; exact ⟨p, by simp [hasOpened]⟩
  · exact inv.dst_complete
  · intro h; exact inv.idle_clean (forall_false_setPc extracting rfl (by rw [hpc]; rfl) h)
  · exact inv.started_dst
  · intro hd h; exact inv.started_zero hd (forall_false_setPc began rfl (by rw [hpc]; rfl) h)

theorem inv_flock (inv : Inv K s) {i : Nat} (hpc : s.pc p = .flock i) (hfree : s.locks i = none) :
    Inv K (setPc (setLock s i (some p)) p (.stat2 i)) := by
  have hp := inv.loc p
  rw [hpc] at hp
  constructor
  · apply loc_setPc _ _ rfl
    · constructor
      · intro j hj; simp [holds] at hj; subst hj; simp [setLock]
      · intro hd j hj; exact hp.early_fd hd j (by simpa [fd] using hj)
      · intro _; rfl
      · rfl
      · intro _ _; rfl
      · simp [contentOK]
      · intro h; cases h
    · intro q _
      obtain ⟨a1, a2, a3, a4, a5, a6, a7⟩ := inv.loc q
      constructor
      · intro j hj
        have := a1 j hj
        by_cases hji : j = i
        · subst hji; rw [hfree] at this; cases this
        · simp [setLock, hji, this]
      · exact a2
      · exact a3
      · exact a4
      · exact a5
      · exact contentOK_congr rfl rfl a6
      · exact a7
  · intro _ _; exact ⟨p, by simp [hasOpened]⟩
  · exact inv.dst_complete
  · intro h; exact inv.idle_clean (forall_false_setPc extracting rfl (by rw [hpc]; rfl) h)
  · exact inv.started_dst
  · intro hd h; exact inv.started_zero hd (forall_false_setPc began rfl (by rw [hpc]; rfl) h)

theorem inv_stat2 (inv : Inv K s) {i : Nat} (hpc : s.pc p = .stat2 i) :
    Inv K (setPc s p (if s.dst.isSome then .unlock i true else .mkTmp i)) := by
  have hp := inv.loc p
  rw [hpc] at hp
  cases hd : s.dst with
  | some t =>
    simp only [Option.isSome_some, if_true]
    constructor
    · apply loc_setPc _ (fun q _ => inv.loc q) rfl
      constructor
      · intro j hj; exact hp.lock_holder j (by simpa [holds] using hj)
      · intro h; rw [hd] at h; cases h
      · intro h; rw [hd] at h; cases h
      · rfl
      · intro _ _; rfl
      · simp [contentOK]
      · intro h; cases h
    · intro _ _; exact ⟨p, by simp [hasOpened]⟩
    · exact inv.dst_complete
    · intro h; exact inv.idle_clean (forall_false_setPc extracting rfl (by rw [hpc]; rfl) h)
    · exact inv.started_dst
    · intro hd' h; exact inv.started_zero hd' (forall_false_setPc began rfl (by rw [hpc]; rfl) h)
  | none =>
    simp only [Option.isSome_none, Bool.false_eq_true, if_false]
    have hnone : ∀ q, extracting (s.pc q) = false := by
      intro q
      cases hq : extracting (s.pc q) with
      | false => rfl
      | true =>
        obtain ⟨j, hj1, hj2⟩ := extracting_fd hq
        have : p = q := inv.holder_unique hd (by rw [hpc]; rfl) (by rw [hpc]; simp [holds]) hj1 hj2
        subst this; rw [hpc] at hq; cases hq
    constructor
    · apply loc_setPc _ (fun q _ => inv.loc q) rfl
      constructor
      · intro j hj; exact hp.lock_holder j (by simpa [holds] using hj)
      · intro h j hj; exact hp.early_fd h j (by simpa [fd] using hj)
      · intro _; rfl
      · rfl
      · intro t h; rw [hd] at h; cases h
      · exact (inv.idle_clean hnone).2
      · intro h; cases h
    · intro _ _; exact ⟨p, by simp [hasOpened]⟩
    · exact inv.dst_complete
    · intro h; have := h p; simp [extracting] at this
    · exact inv.started_dst
    · intro hd' h; exact inv.started_zero hd' (forall_false_setPc began rfl (by rw [hpc]; rfl) h)

/-- while `p` extracts, every other process is outside the extraction -/
theorem Inv.others_idle (inv : Inv K s) (hp : extracting (s.pc p) = true) :
    ∀ q, q ≠ p → extracting (s.pc q) = false := by
  intro q hq
  cases h : extracting (s.pc q) with
  | false => rfl
  | true => exact absurd (inv.unique h hp) hq

theorem inv_mkTmp (inv : Inv K s) {i : Nat} (hpc : s.pc p = .mkTmp i) :
    Inv K (setPc { s with tmp := some [], started := s.started + 1 } p (.write i K)) := by
  have hp := inv.loc p
  rw [hpc] at hp
  have hex : extracting (s.pc p) = true := by rw [hpc]; rfl
  have hd := inv.dst_none_of_extracting hex
  have hoth := inv.others_idle hex
  have hst : s.started = 0 := by
    apply inv.started_zero hd
    intro q
    by_cases hq : q = p
    · subst hq; rw [hpc]; rfl
    · exact not_began_of_not_extracting (hoth q hq)
  constructor
  · apply loc_setPc _ _ rfl
    · constructor
      · intro j hj; exact hp.lock_holder j (by simpa [holds] using hj)
      · intro h j hj; exact hp.early_fd h j (by simpa [fd] using hj)
      · intro _; rfl
      · rfl
      · intro t h; simp at h; rw [hd] at h; cases h
      · refine ⟨Nat.le_refl K, by simp, hp.content⟩
      · intro _; simp [hst]
    · intro q hq
      exact (inv.loc q).congr_idle (hoth q hq) rfl rfl rfl (Or.inr (not_began_of_not_extracting (hoth q hq)))
  · intro _ _; exact ⟨p, by simp [hasOpened]⟩
  · exact inv.dst_complete
  · intro h; have := h p; simp [extracting] at this
  · intro t h; have h' : s.dst = some t := h; rw [hd] at h'; cases h'
  · intro _ h; have := h p; simp [began] at this

theorem inv_write0 (inv : Inv K s) {i : Nat} (hpc : s.pc p = .write i 0) :
    Inv K (setPc s p (.renTmp i)) := by
  have hp := inv.loc p
  rw [hpc] at hp
  constructor
  · apply loc_setPc _ (fun q _ => inv.loc q) rfl
    constructor
    · intro j hj; exact hp.lock_holder j (by simpa [holds] using hj)
    · intro h j hj; exact hp.early_fd h j (by simpa [fd] using hj)
    · intro _; rfl
    · rfl
    · intro t h; exact hp.dst_quiet t h
    · have := hp.content; simp [contentOK] at this ⊢; exact this
    · intro _; exact hp.started_one rfl
  · intro _ _; exact ⟨p, by simp [hasOpened]⟩
  · exact inv.dst_complete
  · intro h; have := h p; simp [extracting] at this
  · exact inv.started_dst
  · intro _ h; have := h p; simp [began] at this

theorem inv_write_succ (inv : Inv K s) {i n : Nat} (hpc : s.pc p = .write i (n + 1)) :
    ∃ t, s.tmp = some t ∧ Inv K (setPc { s with tmp := some (t ++ [p]) } p (.write i n)) := by
  have hp := inv.loc p
  rw [hpc] at hp
  have hex : extracting (s.pc p) = true := by rw [hpc]; rfl
  have hoth := inv.others_idle hex
  obtain ⟨hn, htmp, hext⟩ := hp.content
  refine ⟨_, htmp, ?_⟩
  constructor
  · apply loc_setPc _ _ rfl
    · constructor
      · intro j hj; exact hp.lock_holder j (by simpa [holds] using hj)
      · intro h j hj; exact hp.early_fd h j (by simpa [fd] using hj)
      · intro _; rfl
      · rfl
      · intro t h; exact hp.dst_quiet t h
      · refine ⟨by omega, ?_, hext⟩
        have : K - n = (K - (n + 1)) + 1 := by omega
        simp only [this, List.replicate_succ']
      · intro _; exact hp.started_one rfl
    · intro q hq
      exact (inv.loc q).congr_idle (hoth q hq) rfl rfl rfl (Or.inl rfl)
  · intro _ _; exact ⟨p, by simp [hasOpened]⟩
  · exact inv.dst_complete
  · intro h; have := h p; simp [extracting] at this
  · exact inv.started_dst
  · intro _ h; have := h p; simp [began] at this

theorem inv_renTmp (inv : Inv K s) {i : Nat} (hpc : s.pc p = .renTmp i) :
    ∃ t, s.tmp = some t ∧ s.ext = none ∧
      Inv K (setPc { s with tmp := none, ext := some t } p (.renDst i)) := by
  have hp := inv.loc p
  rw [hpc] at hp
  have hex : extracting (s.pc p) = true := by rw [hpc]; rfl
  have hoth := inv.others_idle hex
  obtain ⟨htmp, hext⟩ := hp.content
  refine ⟨_, htmp, hext, ?_⟩
  constructor
  · apply loc_setPc _ _ rfl
    · constructor
      · intro j hj; exact hp.lock_holder j (by simpa [holds] using hj)
      · intro h j hj; exact hp.early_fd h j (by simpa [fd] using hj)
      · intro _; rfl
      · rfl
      · intro t h; exact hp.dst_quiet t h
      · simp [contentOK]
      · intro _; exact hp.started_one rfl
    · intro q hq
      exact (inv.loc q).congr_idle (hoth q hq) rfl rfl rfl (Or.inl rfl)
  · intro _ _; exact ⟨p, by simp [hasOpened]⟩
  · exact inv.dst_complete
  · intro h; have := h p; simp [extracting] at this
  · exact inv.started_dst
  · intro _ h; have := h p; simp [began] at this

theorem inv_renDst (inv : Inv K s) {i : Nat} (hpc : s.pc p = .renDst i) :
    ∃ t, s.ext = some t ∧ s.dst = none ∧
      Inv K (setPc { s with ext := none, dst := some t } p (.unlock i true)) := by
  have hp := inv.loc p
  rw [hpc] at hp
  have hex : extracting (s.pc p) = true := by rw [hpc]; rfl
  have hd := inv.dst_none_of_extracting hex
  have hoth := inv.others_idle hex
  obtain ⟨hext, htmp⟩ := hp.content
  refine ⟨_, hext, hd, ?_⟩
  constructor
  · apply loc_setPc _ _ rfl
    · constructor
      · intro j hj; exact hp.lock_holder j (by simpa [holds] using hj)
      · intro h; cases h
      · intro h; cases h
      · rfl
      · intro _ _; rfl
      · simp [contentOK]
      · intro h; cases h
    · intro q hq
      obtain ⟨a1, a2, a3, a4, a5, a6, a7⟩ := inv.loc q
      have hqe := hoth q hq
      constructor
      · exact a1
      · intro h; cases h
      · intro h; cases h
      · exact a4
      · intro _ _; exact hqe
      · exact contentOK_idle hqe
      · intro h; rw [began_extracting h] at hqe; cases hqe
  · intro _ _; exact ⟨p, by simp [hasOpened]⟩
  · intro t h; have h' : some _ = some t := h; cases h'; exact ⟨p, rfl⟩
  · intro _; exact ⟨htmp, rfl⟩
  · intro _ _; exact hp.started_one rfl
  · intro h; cases h

theorem inv_unlock (inv : Inv K s) {i : Nat} {ok : Bool} (hpc : s.pc p = .unlock i ok) :
    Inv K (setPc (setLock s i none) p (.unlink ok)) := by
  have hp := inv.loc p
  rw [hpc] at hp
  have hdst : s.dst ≠ none := by
    intro h; have := hp.early_pc h; cases this
  have hli : s.locks i = some p := hp.lock_holder i (by simp [holds])
  constructor
  · apply loc_setPc _ _ rfl
    · constructor
      · intro j hj; cases hj
      · intro _ j hj; cases hj
      · intro h; exact absurd h hdst
      · have := hp.no_failure; revert this; cases ok <;> simp [failed]
      · intro _ _; rfl
      · simp [contentOK]
      · intro h; cases h
    · intro q hq
      obtain ⟨a1, a2, a3, a4, a5, a6, a7⟩ := inv.loc q
      constructor
      · intro j hj
        have := a1 j hj
        by_cases hji : j = i
        · subst hji; rw [hli] at this; cases this; exact absurd rfl hq
        · simp [setLock, hji, this]
      · exact a2
      · exact a3
      · exact a4
      · exact a5
      · exact contentOK_congr rfl rfl a6
      · exact a7
  · intro _ _; exact ⟨p, by simp [hasOpened]⟩
  · exact inv.dst_complete
  · intro h; exact inv.idle_clean (forall_false_setPc extracting rfl (by rw [hpc]; rfl) h)
  · exact inv.started_dst
  · intro hd h; exact inv.started_zero hd (forall_false_setPc began rfl (by rw [hpc]; rfl) h)

theorem inv_unlink (inv : Inv K s) {ok : Bool} (hpc : s.pc p = .unlink ok) :
    Inv K (setPc { s with lockFile := none } p (.done ok)) := by
  have hp := inv.loc p
  rw [hpc] at hp
  have hdst : s.dst ≠ none := by
    intro h; have := hp.early_pc h; cases this
  constructor
  · apply loc_setPc _ _ rfl
    · constructor
      · intro j hj; cases hj
      · intro _ j hj; cases hj
      · intro h; exact absurd h hdst
      · have := hp.no_failure; revert this; cases ok <;> simp [failed]
      · intro _ _; rfl
      · simp [contentOK]
      · intro h; cases h
    · intro q _
      obtain ⟨a1, a2, a3, a4, a5, a6, a7⟩ := inv.loc q
      constructor
      · exact a1
      · intro h; exact absurd h hdst
      · exact a3
      · exact a4
      · exact a5
      · exact contentOK_congr rfl rfl a6
      · exact a7
  · intro j h; cases h
  · exact inv.dst_complete
  · intro h; exact inv.idle_clean (forall_false_setPc extracting rfl (by rw [hpc]; rfl) h)
  · exact inv.started_dst
  · intro hd h; exact inv.started_zero hd (forall_false_setPc began rfl (by rw [hpc]; rfl) h)

end arms


theorem inv_step {K : Nat} {s s' : State} {p : Nat} (inv : Inv K s) (h : step K s p false = some s') :
    Inv K s' := by
  unfold step at h
  split at h
  · rename_i hpc; cases h; exact inv_stat1 inv hpc
  · rename_i hpc
    split at h
    · rename_i i hl; cases h; exact inv_openLock_some inv hpc hl
    · rename_i hl; cases h; exact inv_openLock_none inv hpc hl
  · rename_i i hpc
    split at h
    · rename_i hfree; cases h; exact inv_flock inv hpc hfree
    · cases h
  · rename_i i hpc; cases h; exact inv_stat2 inv hpc
  · rename_i i hpc; cases h; exact inv_mkTmp inv hpc
  · rename_i i hpc; cases h; exact inv_write0 inv hpc
  · rename_i i n hpc
    obtain ⟨t, ht, hinv⟩ := inv_write_succ inv hpc
    simp only [Bool.false_eq_true, if_false, ht] at h
    cases h; exact hinv
  · rename_i i hpc
    obtain ⟨t, ht, he, hinv⟩ := inv_renTmp inv hpc
    simp only [ht, he] at h
    cases h; exact hinv
  · rename_i i hpc
    obtain ⟨t, he, hd, hinv⟩ := inv_renDst inv hpc
    simp only [he, hd] at h
    cases h; exact hinv
  · rename_i i ok hpc; cases h; exact inv_unlock inv hpc
  · rename_i ok hpc; cases h; exact inv_unlink inv hpc
  · cases h

theorem inv_reach {K : Nat} {s : State} (h : Reach K false s) : Inv K s := by
  induction h with
  | init => exact inv_init K
  | step p fail _ hf hs ih =>
    cases fail with
    | false => exact inv_step ih hs
    | true => exact absurd (hf rfl) (by decide)

/-! ### what survives failures: the `flock` itself is exclusive per inode, the lock file is cleaned up -/

structure GInv (s : State) : Prop where
  lock_holder : ∀ p i, holds (s.pc p) i = true → s.locks i = some p
  lockfile_open : ∀ i, s.lockFile = some i → ∃ p, hasOpened (s.pc p) = true

theorem ginv_init : GInv init := by
  constructor <;> simp [init, holds]

theorem ginv_setPc {s s1 : State} {p : Nat} {c c' : PC} (g : GInv s) (hpc : s.pc p = c) (hpc1 : s1.pc = s.pc)
    (hl : ∀ q i, q ≠ p → holds (s.pc q) i = true → s1.locks i = some q)
    (hlp : ∀ i, holds c' i = true → s1.locks i = some p)
    (ho : s1.lockFile = none ∨ hasOpened c' = true ∨ (s1.lockFile = s.lockFile ∧ hasOpened c = false)) :
    GInv (setPc s1 p c') := by
  constructor
  · intro q i
    by_cases hq : q = p
    · subst hq; rw [setPc_pc_self]; exact hlp i
    · rw [setPc_pc_ne _ hq, hpc1]; exact hl q i hq
  · intro i hi
    rcases ho with ho | ho | ⟨ho1, ho2⟩
    · have : s1.lockFile = some i := hi
      rw [ho] at this; cases this
    · exact ⟨p, by rw [setPc_pc_self]; exact ho⟩
    · have : s.lockFile = some i := by rw [← ho1]; exact hi
      exact exists_opened_setPc hpc1 (by rw [hpc, ho2]; intro h; cases h) (g.lockfile_open i this)

theorem ginv_step {K : Nat} {s s' : State} {p : Nat} {f : Bool} (g : GInv s) (h : step K s p f = some s') :
    GInv s' := by
  have keep : ∀ q i, q ≠ p → holds (s.pc q) i = true → s.locks i = some q := fun q i _ h => g.lock_holder q i h
  unfold step at h
  split at h
  · rename_i hpc; cases h
    refine ginv_setPc g hpc rfl keep ?_ (Or.inr (Or.inr ⟨rfl, rfl⟩))
    intro i; split <;> (intro h; cases h)
  · rename_i hpc
    split at h
    · cases h; exact ginv_setPc g hpc rfl keep (by intro i h; cases h) (Or.inr (Or.inl rfl))
    · cases h; exact ginv_setPc g hpc rfl keep (by intro i h; cases h) (Or.inr (Or.inl rfl))
  · rename_i i hpc
    split at h
    · rename_i hfree; cases h
      refine ginv_setPc g hpc rfl ?_ ?_ (Or.inr (Or.inl rfl))
      · intro q j hq hj
        have := g.lock_holder q j hj
        by_cases hji : j = i
        · subst hji; rw [hfree] at this; cases this
        · simp [setLock, hji, this]
      · intro j hj; simp [holds] at hj; subst hj; simp [setLock]
    · cases h
  · rename_i i hpc; cases h
    have hi := g.lock_holder p
    rw [hpc] at hi
    refine ginv_setPc g hpc rfl keep ?_ (Or.inr (Or.inl (by split <;> rfl)))
    intro j; split <;> (intro hj; exact hi j (by simpa [holds] using hj))
  · rename_i i hpc; cases h
    have hi := g.lock_holder p
    rw [hpc] at hi
    exact ginv_setPc g hpc rfl keep (fun j hj => hi j (by simpa [holds] using hj)) (Or.inr (Or.inl rfl))
  · rename_i i hpc; cases h
    have hi := g.lock_holder p
    rw [hpc] at hi
    exact ginv_setPc g hpc rfl keep (fun j hj => hi j (by simpa [holds] using hj)) (Or.inr (Or.inl rfl))
  · rename_i i n hpc
    have hi := g.lock_holder p
    rw [hpc] at hi
    split at h
    · cases h
      exact ginv_setPc g hpc rfl keep (fun j hj => hi j (by simpa [holds] using hj)) (Or.inr (Or.inl rfl))
    · split at h
      · cases h
        exact ginv_setPc g hpc rfl keep (fun j hj => hi j (by simpa [holds] using hj)) (Or.inr (Or.inl rfl))
      · cases h
        exact ginv_setPc g hpc rfl keep (fun j hj => hi j (by simpa [holds] using hj)) (Or.inr (Or.inl rfl))
  · rename_i i hpc
    have hi := g.lock_holder p
    rw [hpc] at hi
    split at h
    · cases h
      exact ginv_setPc g hpc rfl keep (fun j hj => hi j (by simpa [holds] using hj)) (Or.inr (Or.inl rfl))
    · cases h
      exact ginv_setPc g hpc rfl keep (fun j hj => hi j (by simpa [holds] using hj)) (Or.inr (Or.inl rfl))
  · rename_i i hpc
    have hi := g.lock_holder p
    rw [hpc] at hi
    split at h
    · cases h
      exact ginv_setPc g hpc rfl keep (fun j hj => hi j (by simpa [holds] using hj)) (Or.inr (Or.inl rfl))
    · cases h
      exact ginv_setPc g hpc rfl keep (fun j hj => hi j (by simpa [holds] using hj)) (Or.inr (Or.inl rfl))
  · rename_i i ok hpc; cases h
    have hi := g.lock_holder p i (by rw [hpc]; simp [holds])
    refine ginv_setPc g hpc rfl ?_ (by intro j hj; cases hj) (Or.inr (Or.inl rfl))
    intro q j hq hj
    have := g.lock_holder q j hj
    by_cases hji : j = i
    · subst hji; rw [hi] at this; cases this; exact absurd rfl hq
    · simp [setLock, hji, this]
  · rename_i ok hpc; cases h
    exact ginv_setPc g hpc rfl keep (by intro j hj; cases hj) (Or.inl rfl)
  · cases h

theorem ginv_reach {K : Nat} {b : Bool} {s : State} (h : Reach K b s) : GInv s := by
  induction h with
  | init => exact ginv_init
  | step p fail _ _ hs ih => exact ginv_step ih hs

theorem reach_of_run {K : Nat} : ∀ (sched : List (Nat × Bool)) (s s' : State), Reach K true s →
    runSched K s sched = some s' → Reach K true s' := by
  intro sched
  induction sched with
  | nil => intro s s' hr h; simp [runSched] at h; subst h; exact hr
  | cons x rest ih =>
    intro s s' hr h
    obtain ⟨p, f⟩ := x
    simp only [runSched] at h
    split at h
    · rename_i s1 hs
      exact ih s1 s' (Reach.step p f hr (fun _ => rfl) hs) h
    · cases h

/-- the converse bookkeeping: whoever is recorded as holder of an inode is in its critical section -/
def LockConv (s : State) : Prop := ∀ i q, s.locks i = some q → holds (s.pc q) i = true

theorem lockConv_init : LockConv init := by intro i q h; simp [init] at h

theorem lockConv_setPc {s s1 : State} {p : Nat} {c' : PC} (hpc1 : s1.pc = s.pc)
    (h : ∀ i q, s1.locks i = some q → (q ≠ p → holds (s.pc q) i = true) ∧ (q = p → holds c' i = true)) :
    LockConv (setPc s1 p c') := by
  intro i q hq
  have := h i q hq
  by_cases hqp : q = p
  · subst hqp; rw [setPc_pc_self]; exact this.2 rfl
  · rw [setPc_pc_ne _ hqp, hpc1]; exact this.1 hqp

/-- a step that leaves `locks` alone and moves `p` between program counters that hold the same inodes -/
theorem lockConv_keep {s s1 : State} {p : Nat} {c c' : PC} (g : LockConv s) (hpc : s.pc p = c) (hpc1 : s1.pc = s.pc)
    (hl : s1.locks = s.locks) (hh : ∀ i, holds c i = true → holds c' i = true) : LockConv (setPc s1 p c') := by
  apply lockConv_setPc hpc1
  intro i q hq
  rw [hl] at hq
  have := g i q hq
  refine ⟨fun _ => this, fun e => ?_⟩
  subst e; rw [hpc] at this; exact hh i this

theorem lockConv_step {K : Nat} {s s' : State} {p : Nat} {f : Bool} (g : LockConv s) (_gi : GInv s)
    (h : step K s p f = some s') : LockConv s' := by
  unfold step at h
  split at h
  · rename_i hpc; cases h; exact lockConv_keep g hpc rfl rfl (by intro i hi; cases hi)
  · rename_i hpc
    split at h
    · cases h; exact lockConv_keep g hpc rfl rfl (by intro i hi; cases hi)
    · cases h; exact lockConv_keep g hpc rfl rfl (by intro i hi; cases hi)
  · rename_i i hpc
    split at h
    · rename_i hfree; cases h
      apply lockConv_setPc rfl
      intro j q hq
      by_cases hji : j = i
      · subst hji
        simp [setLock] at hq; subst hq
        exact ⟨fun hne => absurd rfl hne, fun _ => by simp [holds]⟩
      · simp [setLock, hji] at hq
        have := g j q hq
        refine ⟨fun _ => this, fun e => ?_⟩
        subst e; rw [hpc] at this; cases this
    · cases h
  · rename_i i hpc; cases h
    exact lockConv_keep g hpc rfl rfl (by intro j hj; split <;> simpa [holds] using hj)
  · rename_i i hpc; cases h
    exact lockConv_keep g hpc rfl rfl (by intro j hj; simpa [holds] using hj)
  · rename_i i hpc; cases h
    exact lockConv_keep g hpc rfl rfl (by intro j hj; simpa [holds] using hj)
  · rename_i i n hpc
    split at h
    · cases h; exact lockConv_keep g hpc rfl rfl (by intro j hj; simpa [holds] using hj)
    · split at h
      · cases h; exact lockConv_keep g hpc rfl rfl (by intro j hj; simpa [holds] using hj)
      · cases h; exact lockConv_keep g hpc rfl rfl (by intro j hj; simpa [holds] using hj)
  · rename_i i hpc
    split at h
    · cases h; exact lockConv_keep g hpc rfl rfl (by intro j hj; simpa [holds] using hj)
    · cases h; exact lockConv_keep g hpc rfl rfl (by intro j hj; simpa [holds] using hj)
  · rename_i i hpc
    split at h
    · cases h; exact lockConv_keep g hpc rfl rfl (by intro j hj; simpa [holds] using hj)
    · cases h; exact lockConv_keep g hpc rfl rfl (by intro j hj; simpa [holds] using hj)
  · rename_i i ok hpc; cases h
    apply lockConv_setPc rfl
    intro j q hq
    by_cases hji : j = i
    · subst hji; simp [setLock] at hq
    · simp [setLock, hji] at hq
      have := g j q hq
      refine ⟨fun _ => this, fun e => ?_⟩
      subst e; rw [hpc] at this; simp [holds] at this; exact absurd this.symm hji
  · rename_i ok hpc; cases h
    exact lockConv_keep g hpc rfl rfl (by intro j hj; cases hj)
  · cases h

theorem lockConv_reach {K : Nat} {b : Bool} {s : State} (h : Reach K b s) : LockConv s := by
  induction h with
  | init => exact lockConv_init
  | step p fail hr _ hs ih => exact lockConv_step ih (ginv_reach hr) hs

/-- every program counter except a blocked `flock` and `done` can always move -/
theorem step_enabled {K : Nat} {s : State} {p : Nat} (f : Bool)
    (h1 : ∀ ok, s.pc p ≠ .done ok) (h2 : ∀ i, s.pc p = .flock i → s.locks i = none) :
    ∃ s', step K s p f = some s' := by
  unfold step
  split
  · exact ⟨_, rfl⟩
  · split <;> exact ⟨_, rfl⟩
  · rename_i i hpc; simp [h2 i hpc]
  · exact ⟨_, rfl⟩
  · exact ⟨_, rfl⟩
  · exact ⟨_, rfl⟩
  · split
    · exact ⟨_, rfl⟩
    · split <;> exact ⟨_, rfl⟩
  · split <;> exact ⟨_, rfl⟩
  · split <;> exact ⟨_, rfl⟩
  · exact ⟨_, rfl⟩
  · exact ⟨_, rfl⟩
  · rename_i ok hpc; exact absurd hpc (h1 ok)

/-- **no deadlock** (with or without failures): as long as some caller has not returned, some caller can move -/
theorem progress {K : Nat} {b : Bool} {s : State} (hr : Reach K b s) (p : Nat) (hp : ∀ ok, s.pc p ≠ .done ok) :
    ∃ q s', (∀ ok, s.pc q ≠ .done ok) ∧ step K s q false = some s' := by
  by_cases hfl : ∃ i, s.pc p = .flock i ∧ s.locks i ≠ none
  · obtain ⟨i, hpi, hli⟩ := hfl
    obtain ⟨q, hq⟩ := Option.ne_none_iff_exists'.1 hli
    have hh := lockConv_reach hr i q hq
    have hq1 : ∀ ok, s.pc q ≠ .done ok := by
      intro ok e; rw [e] at hh; cases hh
    have hq2 : ∀ j, s.pc q = .flock j → s.locks j = none := by
      intro j e; rw [e] at hh; cases hh
    obtain ⟨s', hs'⟩ := step_enabled (K := K) false hq1 hq2
    exact ⟨q, s', hq1, hs'⟩
  · have h2 : ∀ i, s.pc p = .flock i → s.locks i = none := by
      intro i e
      cases hl : s.locks i with
      | none => rfl
      | some q => exact absurd ⟨i, e, by rw [hl]; simp⟩ hfl
    obtain ⟨s', hs'⟩ := step_enabled (K := K) false hp h2
    exact ⟨p, s', hp, hs'⟩

end LlgoVerif.ExtractLock


