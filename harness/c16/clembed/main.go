// In-process compile of ONE generated package with cl.NewPackageEx (tie I of DESIGN §2.2): the package is
// type-checked against export data only (gogen's importer, the route cl/cltest uses), so no dependency is
// compiled.  cl.NewPackageEx runs goembed.LoadDirectives itself and stores the resolved data into the
// string / []byte / embed.FS globals (cl/embed.go); the LLVM module text is printed for the check to read
// the initialisers back.
//
//	clembed DIR…    for each DIR (containing p.go): prints `== DIR`, then `ok` + the module text, or `err <message>`
//
// Build: -tags llvm14,verif with the opaque-pointer overlay on package ssa.
package main

import (
	"fmt"
	"go/ast"
	"go/parser"
	"go/token"
	"go/types"
	"os"
	"path/filepath"
	"runtime"

	"github.com/goplus/gogen/packages"
	"github.com/goplus/llgo/cl"
	llssa "github.com/goplus/llgo/ssa"
	"golang.org/x/tools/go/ssa"
	"golang.org/x/tools/go/ssa/ssautil"
)

var (
	fset = token.NewFileSet()
	imp  = packages.NewImporter(fset) // shared: export data of embed / the llgo runtime is loaded once
)

func compile(dir string) (out string, err error) {
	defer func() {
		if e := recover(); e != nil {
			err = fmt.Errorf("panic: %v", e)
		}
	}()
	f, err := parser.ParseFile(fset, filepath.Join(dir, "p.go"), nil, parser.ParseComments)
	if err != nil {
		return "", err
	}
	files := []*ast.File{f}
	pkg := types.NewPackage("p", f.Name.Name)
	spkg, _, err := ssautil.BuildPackage(&types.Config{Importer: imp}, fset, pkg, files, ssa.SanityCheckFunctions|ssa.InstantiateGenerics)
	if err != nil {
		return "", err
	}
	prog := llssa.NewProgram(nil)
	prog.SetRuntime(func() *types.Package {
		rt, err := imp.Import(llssa.PkgRuntime)
		if err != nil {
			panic(err)
		}
		return rt
	})
	prog.TypeSizes(types.SizesFor("gc", runtime.GOARCH))
	ret, _, err := cl.NewPackageEx(prog, nil, nil, spkg, files)
	if err != nil {
		return "", err
	}
	return ret.String(), nil
}

func main() {
	llssa.Initialize(llssa.InitAll)
	for _, dir := range os.Args[1:] {
		fmt.Println("== " + dir)
		out, err := compile(dir)
		if err != nil {
			fmt.Printf("err %q\n", err.Error())
			continue
		}
		fmt.Println("ok")
		fmt.Println(out)
	}
}
