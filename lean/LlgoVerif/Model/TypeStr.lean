import LlgoVerif.Model.GoType
/-!
# Model of the descriptor contents llgo's compiler emits for reflection — C15 (emitted half)

Mirrors `ssa/abi/type.go`: `Str`, `realStr`, `structStr`, `funcStr`, `interfaceStr`, `namedStr`,
`reflectTypeArgString`/`reflectTypeArgBaseString`, `Kind`, the `TFlag` bits `Named`, `ExtraStar`,
`Variadic`, `Closure` (NOT `RegularMemory`, which is a layout fact — C08), and the table builders of
`ssa/abitype.go`: `abiUncommonMethods` / `abiUncommonType` (names, order, exported count),
`abiInterfaceImethods`, `abiStructFields`.

llgo uses `TFlagExtraStar` the other way round than gc: `Str_` is stored WITHOUT the star and
`(*abi.Type).String()` PREPENDS one when the flag is set (`runtime/abi/type.go`, "misunderstand").
`reflectString` is that function applied to the emitted `Str_`/`TFlag`; it equals `realStr` (`realC`).

Environment (`Env`): package NAME of a package path (for `pkg.Name()`), and for a named type's
declaration whether its underlying type carries `ExtraStar` / `Variadic` / which kind it has — the
driver computes these from the underlying types the harness sends, with this same model.
-/
namespace LlgoVerif.Types

/-- `abi.Kind` numbering -/
inductive Kind
  | invalid | bool | int | int8 | int16 | int32 | int64 | uint | uint8 | uint16 | uint32 | uint64 | uintptr
  | float32 | float64 | complex64 | complex128 | array | chan | func | interface | map | pointer | slice
  | string | struct | unsafePointer
  deriving DecidableEq, Repr, Inhabited

def Kind.toNat : Kind → Nat
  | .invalid => 0 | .bool => 1 | .int => 2 | .int8 => 3 | .int16 => 4 | .int32 => 5 | .int64 => 6
  | .uint => 7 | .uint8 => 8 | .uint16 => 9 | .uint32 => 10 | .uint64 => 11 | .uintptr => 12
  | .float32 => 13 | .float64 => 14 | .complex64 => 15 | .complex128 => 16 | .array => 17 | .chan => 18
  | .func => 19 | .interface => 20 | .map => 21 | .pointer => 22 | .slice => 23 | .string => 24
  | .struct => 25 | .unsafePointer => 26

/-- `BasicKind(t)` -/
def basicKind : BasicKind → Kind
  | .bool => .bool | .int => .int | .int8 => .int8 | .int16 => .int16 | .int32 => .int32 | .int64 => .int64
  | .uint => .uint | .uint8 => .uint8 | .uint16 => .uint16 | .uint32 => .uint32 | .uint64 => .uint64
  | .uintptr => .uintptr | .float32 => .float32 | .float64 => .float64 | .complex64 => .complex64
  | .complex128 => .complex128 | .string => .string | .unsafePointer => .unsafePointer
  | .byte => .uint8 | .rune => .int32

structure Env where
  /-- `pkg.Name()` of a package path -/
  pkgName : Str → Str
  /-- does the underlying type of declaration `d` carry `TFlagExtraStar`? -/
  underStar : Nat → Bool
  /-- kind of the underlying type of declaration `d` -/
  underKind : Nat → Kind
  /-- is the underlying type of declaration `d` a variadic func / a closure struct? -/
  underVariadic : Nat → Bool
  underClosure : Nat → Bool

/-! ## Kind, TFlag -/

/-- `(*Builder).Kind` -/
def kindOf (env : Env) : GoType → Kind
  | .alias _ a => kindOf env a
  | .basic k => basicKind k
  | .pointer _ => .pointer
  | .slice _ => .slice
  | .func _ _ _ => .func
  | .iface _ => .interface
  | .struct _ => .struct
  | .map _ _ => .map
  | .array _ _ => .array
  | .chan _ _ => .chan
  | .named d _ _ _ _ => env.underKind d

/-- the `TFlagExtraStar` bit of `(*Builder).TFlag` -/
def extraStar (env : Env) : GoType → Bool
  | .alias _ a => extraStar env a
  | .pointer e => !extraStar env e
  | .named d _ _ _ _ => env.underStar d
  | _ => false

/-- the `TFlagNamed` bit -/
def flagNamed : GoType → Bool
  | .alias _ a => flagNamed a
  | .basic _ => true
  | .named _ _ _ _ _ => true
  | _ => false

/-- the `TFlagVariadic` bit -/
def flagVariadic (env : Env) : GoType → Bool
  | .alias _ a => flagVariadic env a
  | .func _ _ v => v
  | .named d _ _ _ _ => env.underVariadic d
  | _ => false

/-- the `TFlagClosure` bit -/
def flagClosure (env : Env) : GoType → Bool
  | .alias _ a => flagClosure env a
  | .struct fs => isClosure fs
  | .named d _ _ _ _ => env.underClosure d
  | _ => false

/-! ## Str -/

/-- `Str` of a basic type -/
def basicStr : BasicKind → Str
  | .unsafePointer => "unsaf".toList ++ "e.Pointer".toList
  | .byte => "uint8".toList
  | .rune => "int32".toList
  | k => basicGoName k

def litStructOpen : Str := ['s', 't', 'r', 'u', 'c', 't', ' ', '{']
def litIfaceOpen : Str := ['i', 'n', 't', 'e', 'r', 'f', 'a', 'c', 'e', ' ', '{']
def litFuncOpen : Str := ['f', 'u', 'n', 'c', '(']
def litCmdLine : Str := "command-line-arguments".toList

/-- `reflectTypeArgPkgPath` -/
def targPkgPath (env : Env) (p : Str) : Str :=
  if p = litCmdLine && env.pkgName p != [] then env.pkgName p else pathOf p

/-- first field's type of a closure struct (`PublicType`) -/
def closureFn : FList → Option GoType
  | .cons _ _ _ _ t _ => some t
  | .nil => none

/-- `"*" + s` when `TFlag(t)` has `ExtraStar` (the test of `realStr`, `reflectTypeArgString` and `String()`) -/
def star (env : Env) (t : GoType) (s : Str) : Str := if extraStar env t then '*' :: s else s

mutual
/-- `(*Builder).Str` (the value stored in `Str_`).  `star env e (strC env e)` is `realStr(e)`. -/
def strC (env : Env) : GoType → Str
  | .alias _ a => strC env a
  | .basic k => basicStr k
  | .pointer e => if extraStar env e then '*' :: '*' :: strC env e else strC env e
  | .slice e => '[' :: ']' :: star env e (strC env e)
  | .func ps rs v => litFuncOpen ++ paramsC env ps v ++ ')' :: resultsC env rs
  | .iface ms => litIfaceOpen ++ imethodsC env ms true ++ (if ms.isNil then ['}'] else [' ', '}'])
  | .struct fs =>
    -- `t = PublicType(t)`: a closure struct is rendered as its `$f` func type
    if isClosure fs then fieldFnC env fs
    else litStructOpen ++ sfieldsC env fs true ++ (if fs.length = 0 then ['}'] else [' ', '}'])
  | .map k v => litMapOpen ++ strC env k ++ ']' :: star env v (strC env v)
  | .array n e => '[' :: dec n ++ ']' :: star env e (strC env e)
  | .chan d e => chanDirStr d ++ ' ' :: star env e (strC env e)
  | .named _ pkg name _ targs =>
    let nm := name ++ (if targs.isNil then [] else '[' :: targsC env targs ++ [']'])
    match pkg with
    | some p => env.pkgName p ++ '.' :: nm
    | none => nm
/-- Str of the `$f` field of a closure struct -/
def fieldFnC (env : Env) : FList → Str
  | .nil => []
  | .cons _ _ _ _ t _ => strC env t
/-- the parameter list of `funcStr` -/
def paramsC (env : Env) : TList → Bool → Str
  | .nil, _ => []
  | .cons t r, v =>
    (if r.isNil && v then
      -- `...` + realStr(elem) of the final slice parameter (`it.(*types.Slice)`, a go/types invariant)
      match t with
      | .slice e => '.' :: '.' :: '.' :: star env e (strC env e)
      | _ => ['?']
    else star env t (strC env t)) ++ (if r.isNil then [] else ',' :: ' ' :: paramsC env r v)
/-- the result list of `funcStr` -/
def resultsC (env : Env) : TList → Str
  | .nil => []
  | .cons t r =>
    if r.isNil then ' ' :: star env t (strC env t)
    else ' ' :: '(' :: star env t (strC env t) ++ moreResultsC env r ++ [')']
def moreResultsC (env : Env) : TList → Str
  | .nil => []
  | .cons t r => ',' :: ' ' :: star env t (strC env t) ++ moreResultsC env r
/-- the field list of `structStr` (`first` = no `;` before this field). TAGS ARE NOT RENDERED. -/
def sfieldsC (env : Env) : FList → Bool → Str
  | .nil, _ => []
  | .cons name _ emb _ t r, first =>
    (if first then [' '] else [';', ' ']) ++ (if emb then [] else name ++ [' ']) ++
      star env t (strC env t) ++ sfieldsC env r false
/-- the method list of `interfaceStr`: (`pkgname.`)`name` + the func string without its leading `func` -/
def imethodsC (env : Env) : MList → Bool → Str
  | .nil, _ => []
  | .cons name pkg sig r, first =>
    (if first then [' '] else [';', ' ']) ++
      (match pkg with | some p => env.pkgName p ++ '.' :: name | none => name) ++
      (star env sig (strC env sig)).drop 4 ++ imethodsC env r false
/-- `strings.Join(reflectTypeArgString(targ)…, ",")` -/
def targsC (env : Env) : TList → Str
  | .nil => []
  | .cons t r => star env t (targBaseC env t) ++ (if r.isNil then [] else ',' :: targsC env r)
/-- `reflectTypeArgBaseString`; `star env t (targBaseC env t)` is `reflectTypeArgString(t)`.
    The `types.TypeString` fall-back (func / struct type arguments) is not modelled (`?`). -/
def targBaseC (env : Env) : GoType → Str
  | .alias _ a => targBaseC env a
  | .basic k => basicStr k
  | .named _ pkg name _ targs =>
    let nm := name ++ (if targs.isNil then [] else '[' :: targsC env targs ++ [']'])
    match pkg with
    | some p => targPkgPath env p ++ '.' :: nm
    | none => nm
  | .iface ms => litIfaceOpen ++ imethodsC env ms true ++ (if ms.isNil then ['}'] else [' ', '}'])
  | .pointer e => if extraStar env e then '*' :: '*' :: targBaseC env e else targBaseC env e
  | .slice e => '[' :: ']' :: star env e (targBaseC env e)
  | .array n e => '[' :: dec n ++ ']' :: star env e (targBaseC env e)
  | .map k v => litMapOpen ++ targBaseC env k ++ ']' :: star env v (targBaseC env v)
  | .chan d e => chanDirStr d ++ ' ' :: star env e (targBaseC env e)
  | .func _ _ _ => ['?']
  | .struct _ => ['?']
end

/-- `realStr(t)` -/
def realC (env : Env) (t : GoType) : Str := star env t (strC env t)

/-- `(*abi.Type).String()` of the emitted descriptor: `Str_`, with a star in front when the
    `ExtraStar` flag is set -/
def reflectString (env : Env) (t : GoType) : Str := star env t (strC env t)

/-! ## method and field tables (`ssa/abitype.go`) -/

/-- one method as go/types hands it over: name, package of a non-exported name, signature -/
structure MethodIn where
  name : Str
  pkg : Option Str
  sigName : Str        -- TypeName of the func type (identifies the *FuncType)
  deriving DecidableEq, Repr

/-- `abiUncommonMethods` / `abiInterfaceImethods`: the emitted `Name_` — the bare name of an
    exported method, `FullName(pkg, name)` (= `PathOf(pkg).name`) otherwise -/
def emittedName (m : MethodIn) : Str :=
  match m.pkg with
  | none => m.name
  | some p => pathOf p ++ '.' :: m.name

/-- the emitted table keeps the order go/types delivers (method set: by Id; interface: go/types'
    interface order) -/
def methodTable (ms : List MethodIn) : List (Str × Str) := ms.map fun m => (emittedName m, m.sigName)

/-- `Xcount` of `abiUncommonType` -/
def xcount (ms : List MethodIn) : Nat := (ms.filter fun m => m.pkg.isNone).length

/-- `(*Func).Id()`: the key go/types sorts a method set by -/
def methodId (m : MethodIn) : Str :=
  match m.pkg with
  | none => m.name
  | some p => p ++ '.' :: m.name

/-- `abiStructFields`: (Name_, Tag_, Embedded_) per field, in order -/
def fieldTable : FList → List (Str × Str × Bool)
  | .nil => []
  | .cons name _ emb tag _ r => (name, tag, emb) :: fieldTable r

end LlgoVerif.Types
